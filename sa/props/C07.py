"""C07 - reparameterisations are exact bijections with consistent Jacobians and priors."""

import ast

from .. import AnalysisError, tables
from ..pat import find_expr, find_stmt, match_expr, match_stmt
from ..canon import canon, canon_node, single_assignments
from ..pm import src
from ..q import FA, conjuncts, call_name, cfg_of, guard_facts, is_self_attr, nfact, returns_under, walk_no_nested
from ..resolve import resolver
from ..rules import sig
from ..rules.selfattrs import SelfAttrs
from .. import sym

TECHNIQUE = "R-SIB pairing completeness over the class table, R-REG registry/constructor conformance, R-SIGN accumulation discipline of every elementary-map Jacobian on the CFG, computer-algebra identities on the extracted formulas (reported log-J vs. logarithmic derivative of the map formula; inverse(forward(x)) = x; forward/inverse negation), R-SIB mirror order, R-ORDER non-sampling fields, R-WRITERS update/reset completeness; guard dominance on the auxiliary-radius gate; R-NORM; path summaries feeding the computer-algebra Jacobian check of the inverse polar / spherical maps; predicate agreement for the prime-prior bounds (C07.11); configuration enumeration of determine_rescaled_bounds with guard folding and computer algebra (C07.12)"

REP = "nessai.reparameterisations"
BASE = REP + ".base:Reparameterisation"
RTB = REP + ".rescale:RescaleToBounds"
SAS = REP + ".rescale:ScaleAndShift"
ANGLE = REP + ".angle:Angle"
APAIR = REP + ".angle:AnglePair"
RESC = "nessai.utils.rescaling"
GWU = "nessai.gw.utils"


# ---------------------------------------------------------------------------
# straight-line symbolic evaluation of an elementary map
def eval_map(fi, inputs, consts=(), call_inline=None, extra_subst=None):
    """Returns (value expr, log-J expr) of a function returning (value, log_j);
    `inputs` are the parameter names treated as variables."""
    S = sym.Sym()
    env = {}
    for p in fi.params():
        if p in ("self",):
            continue
        env[p] = S.symbol(p)
    if extra_subst:
        env.update(extra_subst(S))

    def conv(e):
        e = _drop_clips(e, fi)
        e2 = _inline_calls(e, fi, call_inline) if call_inline else e
        sub = sym.Sym(subst={k: v for k, v in env.items()})
        sub.syms = S.syms
        return sub.conv(e2)

    result = None

    def walk(stmts):
        nonlocal result
        for s in stmts:
            if isinstance(s, ast.Expr) and isinstance(s.value, ast.Constant):
                continue
            if isinstance(s, ast.Assign) and len(s.targets) == 1 and isinstance(s.targets[0], ast.Name):
                env[s.targets[0].id] = conv(s.value)
            elif isinstance(s, ast.Assign) and len(s.targets) == 1 and isinstance(s.targets[0], ast.Tuple) and all(isinstance(t_, ast.Name) for t_ in s.targets[0].elts) and not ({x_.id for x_ in ast.walk(s.value) if isinstance(x_, ast.Name)} & (set(inputs) | (set(env) - set(fi.params())))):
                # `lo, hi = np.sort(<constants of the object>)`: values that do not depend on the mapped variable are
                # fresh constants of the formula
                for t_ in s.targets[0].elts:
                    env[t_.id] = S.symbol(t_.id)
            elif isinstance(s, ast.With):
                walk(s.body)
            elif isinstance(s, ast.If):
                # optional clipping / validation branches do not change the formula on the regular domain
                if any(isinstance(x, ast.Return) for x in ast.walk(s)):
                    raise AnalysisError(f"{fi.qual}: conditional return in an elementary map (ANALYSIS-INCOMPLETE)")
                continue
            elif isinstance(s, ast.Return):
                if not (isinstance(s.value, ast.Tuple) and len(s.value.elts) == 2):
                    raise AnalysisError(f"{fi.qual}: elementary map does not return (value, log_j)")
                result = (conv(s.value.elts[0]), conv(s.value.elts[1]))
            else:
                raise AnalysisError(f"{fi.qual}: statement `{src(s)[:60]}` is outside the straight-line fragment (ANALYSIS-INCOMPLETE)")

    walk(fi.node.body)
    if result is None:
        raise AnalysisError(f"{fi.qual}: no (value, log_j) return found")
    return result, {p: S.syms.get(p) or S.symbol(p) for p in inputs}, S


CLIPS = []  # (function, clip call, [bound expressions]) seen while reading the elementary maps


def _drop_clips(e, fi):
    """np.clip(E, lo, hi) is E on the regular domain (the map's own range); the bounds it clips against are judged
    separately (C07.4: they must not be learned from the live points)."""
    if not any(isinstance(n, ast.Call) and (call_name(n) or "").split(".")[-1] == "clip" for n in ast.walk(e)):
        return e
    import copy as _c

    class T(ast.NodeTransformer):
        def visit_Call(self, node):
            self.generic_visit(node)
            if (call_name(node) or "").split(".")[-1] == "clip" and node.args:
                bounds = list(node.args[1:]) + [k.value for k in node.keywords if k.arg in ("a_min", "a_max", "min", "max")]
                CLIPS.append((fi, node, bounds))
                return node.args[0]
            return node

    return T().visit(_c.deepcopy(e))


def _inline_calls(e, fi, table):
    """Replace `self.m(arg)` by the return expression of m with its parameter substituted (table: name -> FunctionInfo or source template)."""
    class T(ast.NodeTransformer):
        def visit_Call(self, node):
            self.generic_visit(node)
            if isinstance(node.func, ast.Attribute) and isinstance(node.func.value, ast.Name) and node.func.value.id == "self" and node.func.attr in table:
                tgt = table[node.func.attr]
                if isinstance(tgt, str):
                    t = ast.parse(tgt, mode="eval").body
                    pname = "ARG"
                else:
                    rets = [n for n in walk_no_nested(tgt.node) if isinstance(n, ast.Return)]
                    if len(rets) != 1:
                        raise AnalysisError(f"{tgt.qual}: helper is not a single-return expression")
                    t = rets[0].value
                    pname = tgt.params()[1]
                arg = node.args[0]

                class Sub(ast.NodeTransformer):
                    def visit_Name(self, n):
                        return arg if n.id == pname else n

                import copy as _c
                return Sub().visit(_c.deepcopy(t))
            return node

    import copy
    return T().visit(copy.deepcopy(e))


def check_scalar_map(ctx, clause, fi, var, label, **kw):
    (y, J), ins, S = eval_map(fi, [var], **kw)
    x = ins[var]
    ok = sym.differs_from_log_abs_by_constant(J, sym.sp.diff(y, x), [x])
    ctx.ob("R-ALG", clause, fi, f"{label}: the reported log-Jacobian differs from log|d(map)/dx| of the formula next to it by a constant", ok, f"map: {y} ; log_j: {J}")
    return y, J, x, S


def _map_paths(f, inputs, outputs, alias=None, positive=False, passthrough=()):
    """[(values finally stored into `outputs` (sympy, None if not stored), total change of log_j)] for every normal path
    through f, from the path summaries (earlier stores are substituted into later reads of the same field)."""
    from ..summ import summarise

    alias = alias or {}
    out = []
    for pa in summarise(f.node):
        if pa.end == "raise":
            continue
        vals = {}
        zero = sym.sp.Integer(0)

        class _PT(ast.NodeTransformer):
            # `x, x_prime, log_j = self.<hook>(x, x_prime, log_j)`: a composition hook whose own map is decided separately;
            # here its k-th result is its k-th argument
            def visit_Subscript(self, n_):
                self.generic_visit(n_)
                if isinstance(n_.slice, ast.Constant) and isinstance(n_.slice.value, int) and isinstance(n_.value, ast.Call) and isinstance(n_.value.func, ast.Attribute) and n_.value.func.attr in passthrough and src(n_.value.func.value) == "self" and n_.slice.value < len(n_.value.args):
                    return n_.value.args[n_.slice.value]
                return n_

        def conv(e_):
            import copy as _cp

            e_ = _PT().visit(_cp.deepcopy(e_))
            sb = {**inputs, **vals, "log_j": zero}
            for a_, b_ in alias.items():
                if b_ in sb:
                    sb[a_] = sb[b_]
            return sym.Sym(subst=sb, positive=positive).conv(e_)

        for eff in pa.effects:
            if eff[0] == "store":
                t_ = src(eff[1])
                vals[alias.get(t_, t_)] = conv(eff[2])
        J = conv(pa.env["log_j"]) if "log_j" in pa.env else zero
        out.append(([vals.get(o_) for o_ in outputs], J))
    return out


def run(ctx):
    prog = ctx.prog
    res = resolver(prog)
    sym.require_sympy()
    base = prog.cls(BASE)

    # ---- C07.1 pairing completeness ----------------------------------------------
    concrete = [k for k in prog.subclasses(base)]
    ctx.require(len(concrete) >= 8, f"only {len(concrete)} Reparameterisation subclasses found")
    for k in concrete:
        for m in ("reparameterise", "inverse_reparameterise"):
            f = prog.find_method(k, m)
            ok = f is not None and f.cls is not base
            kwargs_ok = f is not None and f.node.args.kwarg is not None
            rets = [n for n in walk_no_nested(f.node) if isinstance(n, ast.Return)] if f else []
            triple = bool(rets) and all((isinstance(r.value, ast.Tuple) and [src(e) for e in r.value.elts] == ["x", "x_prime", "log_j"]) or (isinstance(r.value, ast.Call) and isinstance(r.value.func, ast.Attribute) and r.value.func.attr.startswith("_")) for r in rets)
            ctx.ob("R-SIB", "C07.1", k.qual, f"{k.name}.{m} is implemented (not the abstract base), accepts **kwargs and returns the triple (x, x_prime, log_j)", ok and kwargs_ok and triple, f"defined in {f.cls.name if f else None}; kwargs={kwargs_ok}; returns {[src(r.value)[:40] for r in rets]}", fn=f)
    dc = prog.cls(GWU + ":DistanceConverter")
    for k in prog.subclasses(dc):
        for m in ("to_uniform_parameter", "from_uniform_parameter"):
            f = k.methods.get(m) or prog.find_method(k, m)
            rets = [n for n in walk_no_nested(f.node) if isinstance(n, ast.Return)] if f else []
            ok = f is not None and f.cls is not dc and rets and all(isinstance(r.value, ast.Tuple) and len(r.value.elts) == 2 for r in rets)
            ctx.ob("R-SIB", "C07.1", k.qual, f"distance converter {k.name}.{m} is implemented and returns a (value, log_j) pair", ok, "", fn=f)
    ctx.floor("C07.1", 20)

    # ---- C07.2 registry conformance ---------------------------------------------------
    for modname, var in ((REP, "default_reparameterisations"), ("nessai.gw.reparameterisations", "default_gw")):
        m = prog.module(modname)
        d = m.globals.get(var)
        ctx.require(isinstance(d, ast.Dict), f"{modname}.{var} is not a dict literal")
        for k, v in zip(d.keys, d.values):
            name = src(k)
            okshape = isinstance(v, ast.Tuple) and len(v.elts) == 2
            cls_r = prog.resolve_expr(m, v.elts[0]) if okshape else None
            okcls = cls_r is not None and cls_r[0] == "class" and base in prog.mro(cls_r[1])
            okkw = True
            detail = ""
            if okshape and okcls and isinstance(v.elts[1], ast.Dict):
                accepted = init_keywords(prog, cls_r[1])
                for kk in v.elts[1].keys:
                    if kk.value not in accepted:
                        okkw = False
                        detail = f"keyword `{kk.value}` is not accepted by {cls_r[1].name}.__init__ (accepted: {sorted(accepted)})"
            elif okshape and not (isinstance(v.elts[1], ast.Dict) or (isinstance(v.elts[1], ast.Constant) and v.elts[1].value is None)):
                okkw = False
                detail = "second component must be a kwargs dict or None"
            ctx.ob("R-REG", "C07.2", f"{modname}:{var}", f"registry entry {name} = (Reparameterisation class, kwargs accepted by its constructor)", okshape and okcls and okkw, detail or f"{src(v)[:80]}")
    gw = prog.cls(tables.GWFP)
    al = gw.class_attrs.get("aliases")
    gwkeys = {k.value for k in prog.module("nessai.gw.reparameterisations").globals["default_gw"].keys if isinstance(k, ast.Constant)} | {k.value for k in prog.module(REP).globals["default_reparameterisations"].keys if isinstance(k, ast.Constant)}
    ctx.require(isinstance(al, ast.Dict), "GWFlowProposal.aliases is not a dict literal")
    for k, v in zip(al.keys, al.values):
        tgt = v.elts[0].value if isinstance(v, ast.Tuple) and isinstance(v.elts[0], ast.Constant) else None
        ctx.ob("R-REG", "C07.2", gw.qual, f"GW alias {src(k)} names a registered reparameterisation", tgt in gwkeys, f"-> {tgt!r}")
    upd = find_expr("default_gw.update(default_reparameterisations)", prog.module("nessai.gw.reparameterisations").tree)
    ctx.ob("R-REG", "C07.2", "nessai.gw.reparameterisations", "the GW registry includes the general registry", len(upd) == 1, "")
    rf = prog.module(RESC).globals.get("rescaling_functions")
    ctx.require(isinstance(rf, ast.Dict), "rescaling_functions is not a dict literal")
    pairs = {}
    for k, v in zip(rf.keys, rf.values):
        ok = isinstance(v, ast.Tuple) and len(v.elts) == 2 and all(isinstance(e, ast.Name) and e.id in prog.module(RESC).functions for e in v.elts)
        pairs[k.value] = tuple(src(e) for e in v.elts) if ok else None
        ctx.ob("R-REG", "C07.2", RESC + ":rescaling_functions", f"rescaling function {src(k)} is a (forward, inverse) pair of functions defined in the module", ok, f"{src(v)}")
    ctx.ob("R-REG", "C07.2", RESC + ":rescaling_functions", "`log` and `exp` are registered as swaps of one pair", pairs.get("log") is not None and pairs.get("exp") == tuple(reversed(pairs["log"])), f"{pairs.get('log')} / {pairs.get('exp')}")
    rtb = prog.cls(RTB)
    post = rtb.methods["configure_post_rescaling"]
    from .C20_reg import compared_literals

    ctx.ob("R-REG", "C07.2", post, "post-rescalings that need the unit interval are exactly the registered names logit / log", compared_literals(post.node, "post_rescaling") == {"logit", "log"} and {"logit", "log"} <= set(pairs), "")
    # an option string is compared under one normalisation (a name that is looked up case-insensitively is not tested raw)
    from ..rules import optnorm as _on
    _hits = _on.scan(prog)
    ctx.require(len(_hits) >= 1, "no comparison of a case-normalised option string found (configure_post_rescaling expected)")
    for _f, _n, _ok, _why in _hits:
        ctx.ob("R-NORM", "C07.2", _f, "an option that is looked up case-insensitively is compared with its literal values under the same normalisation", _ok, _why, node=_n)
    ctx.floor("C07.2", 60)

    # ---- C07.3 Jacobian accumulation discipline ------------------------------------------
    mods = [REP + ".rescale", REP + ".angle", REP + ".combined", REP + ".null", "nessai.gw.reparameterisations"]
    n_sites = 0
    for f in prog.all_functions:
        if f.module.name not in mods or f.parent is not None:
            continue
        if "log_j" not in f.params():
            continue
        fa = FA(f)
        for node in fa.nodes():
            st = node.ast
            if node.kind != "stmt" or not isinstance(st, ast.Assign) or not isinstance(st.targets[0], ast.Tuple) or not isinstance(st.value, ast.Call):
                continue
            tg = st.targets[0].elts
            if len(tg) == 2 and isinstance(tg[1], ast.Name):
                # elementary map: (value, lj)
                n_sites += 1
                lj = tg[1].id
                adds = fa.find(lambda s, lj=lj: isinstance(s, ast.AugAssign) and isinstance(s.op, ast.Add) and src(s.target) == "log_j" and src(s.value) == lj)
                subs = fa.find(lambda s, lj=lj: isinstance(s, ast.AugAssign) and isinstance(s.op, ast.Sub) and src(s.target) == "log_j" and lj in src(s.value))
                rebinds = [n.id for n in fa.nodes() if n.kind == "stmt" and isinstance(n.ast, ast.Assign) and any(lj in [src(e) for e in (t.elts if isinstance(t, ast.Tuple) else [t])] for t in n.ast.targets)]
                reach = set()
                for s_ in fa.cfg.g.successors(node.id):
                    reach |= fa.cfg.reachable(s_, without=adds)
                ok = lj != "_" and bool(adds) and not subs and fa.cfg.exit not in reach and not (set(rebinds) & reach)
                ctx.ob("R-SIGN", "C07.3", f, f"the log-Jacobian returned by `{src(st.value.func)}` is added to log_j on every path before it is re-bound or the function returns", ok, f"`{src(st)[:80]}`; += sites {len(adds)}, -= sites {len(subs)}", node=st)
            elif len(tg) == 3 and isinstance(st.value.func, ast.Attribute) and any("log_j" == src(a) for a in st.value.args):
                n_sites += 1
                ctx.ob("R-SIGN", "C07.3", f, f"the accumulated log_j threaded through `{src(st.value.func)}` is re-bound from its result", src(tg[2]) == "log_j" and src(tg[0]) == "x" and src(tg[1]) == "x_prime", f"`{src(st)[:80]}`", node=st)
            elif len(tg) == 4 and any("log_j" == src(a) for a in st.value.args):
                n_sites += 1
                ctx.ob("R-SIGN", "C07.3", f, f"the accumulated log_j threaded through `{src(st.value.func)}` is re-bound from its result", src(tg[3]) == "log_j", f"`{src(st)[:80]}`", node=st)
        # log_j is only ever augmented, never re-initialised, inside a reparameterisation
        for node in fa.nodes():
            st = node.ast
            if node.kind == "stmt" and isinstance(st, ast.Assign) and any(src(t) == "log_j" for t in st.targets):
                ok = isinstance(st.value, ast.Call) and call_name(st.value) in ("np.concatenate", "numpy.concatenate") and src(st.value.args[0]) == "[log_j, log_j]"
                ctx.ob("R-SIGN", "C07.3", f, "log_j is never overwritten inside a reparameterisation (only augmented, or duplicated together with the points)", ok, f"`{src(st)[:70]}`", node=st)
    ctx.require(n_sites >= 18, f"only {n_sites} Jacobian threading sites found")
    ctx.floor("C07.3", 18)

    # ---- C07.4 formulas: reported log-J vs. the derivative of the map; inverse o forward = id -------
    del CLIPS[:]
    R = prog.module(RESC)
    scalar_pairs = [("rescale_zero_to_one", "inverse_rescale_zero_to_one"), ("rescale_minus_one_to_one", "inverse_rescale_minus_one_to_one"), ("logit", "sigmoid"), ("log_with_log_jacobian", "exp_with_log_jacobian")]
    for fwd, inv in scalar_pairs:
        ff, fi_ = ctx.fn(f"{RESC}:{fwd}"), ctx.fn(f"{RESC}:{inv}")
        yf, Jf, xf, Sf = check_scalar_map(ctx, "C07.4", ff, "x", fwd)
        yi, Ji, xi, Si = check_scalar_map(ctx, "C07.4", fi_, "x", inv)
        comp = yi.subs(xi, yf)
        other = {s: Sf.syms.get(n, s) for n, s in Si.syms.items() if n != "x"}
        comp = comp.subs(other)
        ctx.ob("R-ALG", "C07.4", fi_, f"{inv}({fwd}(x)) simplifies to x", sym.is_zero(comp - xf), f"{comp}")
        neg = Jf + Ji.subs(xi, yf).subs(other)
        ctx.ob("R-ALG", "C07.4", fi_, f"log-Jacobians of {fwd} and {inv} are negatives of each other at corresponding points", sym.is_zero(neg), f"sum = {sym.sp.simplify(neg)}")
    # RescaleToBounds helpers
    f1, f2 = ctx.fn(RTB + "._rescale_to_bounds"), ctx.fn(RTB + "._inverse_rescale_to_bounds")
    yf, Jf, xf, Sf = check_scalar_map(ctx, "C07.4", f1, "x", "RescaleToBounds._rescale_to_bounds")
    yi, Ji, xi, Si = check_scalar_map(ctx, "C07.4", f2, "x", "RescaleToBounds._inverse_rescale_to_bounds")
    other = {s: Sf.syms.get(n, s) for n, s in Si.syms.items() if n != "x"}
    ctx.ob("R-ALG", "C07.4", f2, "_inverse_rescale_to_bounds(_rescale_to_bounds(x)) simplifies to x", sym.is_zero(yi.subs(xi, yf).subs(other) - xf), "")
    ctx.ob("R-ALG", "C07.4", f2, "their log-Jacobians are negatives of each other", sym.is_zero(Jf + Ji.subs(xi, yf).subs(other)), "")
    # power-law distance converter
    pl = prog.cls(GWU + ":PowerLawConverter")
    ini = pl.methods["__init__"]
    okf = len(find_stmt("self._f = cbrt", ini.node)) == 1 and len(find_stmt("self._f = sqrt", ini.node)) == 1 and len(find_stmt("self._f = lambda $$a: $$a ** (1 / self._power)", ini.node)) == 1 and len(find_stmt("self._power = self.power + 1", ini.node)) == 1
    ctx.ob("R-SIB", "C07.4", ini, "PowerLawConverter._f is the _power-th root in all three branches (cbrt for 3, sqrt for 2, x**(1/_power) otherwise)", okf and any(src(n.test) == "self._power == 3" for n in walk_no_nested(ini.node) if isinstance(n, ast.If)), "")
    inl = {"_log_jacobian": pl.methods["_log_jacobian"], "_log_jacobian_inv": pl.methods["_log_jacobian_inv"], "_f": "ARG ** (1 / self._power)"}
    yf, Jf, xf, Sf = check_scalar_map(ctx, "C07.4", pl.methods["to_uniform_parameter"], "d", "PowerLawConverter.to_uniform_parameter", call_inline=inl)
    yi, Ji, xi, Si = check_scalar_map(ctx, "C07.4", pl.methods["from_uniform_parameter"], "d", "PowerLawConverter.from_uniform_parameter", call_inline=inl)
    other = {s: Sf.syms.get(n, s) for n, s in Si.syms.items() if n != "d"}
    ctx.ob("R-ALG", "C07.4", pl.methods["from_uniform_parameter"], "from_uniform_parameter(to_uniform_parameter(d)) simplifies to d", sym.is_zero(yi.subs(xi, yf).subs(other) - xf), "")
    ctx.ob("R-ALG", "C07.4", pl.methods["from_uniform_parameter"], "the two power-law log-Jacobians are negatives of each other at corresponding points", sym.is_zero(Jf + Ji.subs(xi, yf).subs(other)), "")
    nd = prog.cls(GWU + ":NullDistanceConverter")
    for m in ("to_uniform_parameter", "from_uniform_parameter"):
        check_scalar_map(ctx, "C07.4", nd.methods[m], "d", f"NullDistanceConverter.{m}")
    cd = prog.cls(GWU + ":ComovingDistanceConverter")
    ctx.ob("R-SIB", "C07.4", cd.qual, "the comoving-distance converter declares that it has no tractable Jacobian (the prime prior is then required instead)", isinstance(cd.class_attrs.get("has_jacobian"), ast.Constant) and cd.class_attrs["has_jacobian"].value is False, "")
    dr = ctx.fn("nessai.gw.reparameterisations:DistanceReparameterisation.__init__")
    okreq = any(isinstance(n, ast.If) and src(n.test) == "not self.distance_converter.has_jacobian" and any(match_stmt("self.requires_prime_prior = True", s) is not None for s in n.body) for n in walk_no_nested(dr.node))
    ctx.ob("R-SIB", "C07.4", dr, "a converter without Jacobian forces the prime-space prior (requires_prime_prior = True)", okreq, "")

    # ScaleAndShift
    sas = prog.cls(SAS)
    for m, sign_, pats in (("reparameterise", -1, ["x_prime[$$pp] = (x[$$p] - self.shift[$$p]) / self.scale[$$p]", "x_prime[$$pp] = x[$$p] / self.scale[$$p]"]), ("inverse_reparameterise", 1, ["x[$$p] = x_prime[$$pp] * self.scale[$$p] + self.shift[$$p]", "x[$$p] = x_prime[$$pp] * self.scale[$$p]"])):
        f = sas.methods[m]
        okm = all(len(find_stmt(p_, f.node)) == 1 for p_ in pats)
        js = [n for n in walk_no_nested(f.node) if isinstance(n, ast.AugAssign) and src(n.target) == "log_j"]
        okj = len(js) == 1 and ((isinstance(js[0].op, ast.Sub) and sign_ < 0) or (isinstance(js[0].op, ast.Add) and sign_ > 0)) and match_expr("log(abs(self.scale[$$p]))", js[0].value) is not None
        ctx.ob("R-ALG", "C07.4", f, f"ScaleAndShift.{m}: map is affine in the parameter with slope scale^{-sign_ * -1 if False else ('-1' if sign_ < 0 else '+1')} and log_j changes by {'-' if sign_ < 0 else '+'}log|scale| once per parameter", okm and okj and _in_same_loop(f.node, js[0]), f"{[src(j) for j in js]}")
    # Angle (polar) and AnglePair (spherical)
    ang = prog.cls(ANGLE)
    fr = ang.methods["reparameterise"]
    bx = find_stmt("x_prime[self.prime_parameters[0]] = $a", fr.node)
    by = find_stmt("x_prime[self.prime_parameters[1]] = $a", fr.node)
    bj = [n for n in walk_no_nested(fr.node) if isinstance(n, ast.AugAssign) and src(n.target) == "log_j"]
    ra_ = ang.methods["_rescale_angle"]
    sc = find_stmt("return (x[self.parameters[0]] * self.scale, x, x_prime, log_j)", ra_.node)
    an = find_stmt("$$a, x, x_prime, log_j = self._rescale_angle(x, x_prime, log_j, **kwargs)", fr.node)
    rn = find_stmt("$$r = self.chi.rvs(size=x.size)", fr.node)
    ok = len(bx) == 1 and len(by) == 1 and len(bj) == 1 and isinstance(bj[0].op, ast.Add) and len(sc) == 1 and len(an) == 1 and len(rn) == 1
    if ok:
        S = sym.Sym()
        th, r, s = S.symbol("theta"), S.symbol("r"), S.symbol("scale")
        sub = sym.Sym(subst={src(an[0][1]["a"]): th * s, src(rn[0][1]["r"]): r})
        sub.syms = S.syms
        X, Y, J = sub.conv(bx[0][1]["a"]), sub.conv(by[0][1]["a"]), sub.conv(bj[0].value)
        ok = sym.differs_from_log_abs_by_constant(J, sym.det_jacobian([X, Y], [th, r]), [th, r])
    ctx.ob("R-ALG", "C07.4", fr, "Angle: (angle*scale, r) -> (r cos, r sin); the accumulated log r differs from log|det| of that map by a constant", bool(ok), "")
    fi_ = ang.methods["inverse_reparameterise"]
    # path summaries: on every syntactic path, the values finally stored into the two physical fields and the total change
    # of log_j, with temporaries and helper calls substituted (so one arctan2 shared by both branches, or the named
    # slots `self.angle` / `self.radial`, read the same)
    ok, n_paths = True, 0
    S = sym.Sym(positive=False)
    Xs, Ys = S.symbol("X"), S.symbol("Y")
    sc_ = sym.Sym().symbol("scale")
    for outs_, J_ in _map_paths(fi_, {"x_prime[self.prime_parameters[0]]": Xs, "x_prime[self.prime_parameters[1]]": Ys, "self.scale": sc_}, ["x[self.parameters[0]]", "x[self.parameters[1]]"], passthrough=("_inverse_rescale_angle",)):
        n_paths += 1
        ok = ok and all(o_ is not None for o_ in outs_) and sym.is_zero(outs_[1] - sym.sp.sqrt(Xs ** 2 + Ys ** 2)) and sym.differs_from_log_abs_by_constant(J_, sym.det_jacobian(outs_, [Xs, Ys]), [Xs, Ys])
    ok = ok and n_paths >= 2
    ctx.ob("R-ALG", "C07.4", fi_, "Angle inverse: (x, y) -> (atan2(y, x)/scale, sqrt(x^2+y^2)); the subtracted log r differs from log|det| by a constant (both zero-bound variants)", bool(ok), "")
    ap = prog.cls(APAIR)
    for fw, iv, polar in (("_az_zen", "_inv_az_zen", "sin"), ("_ra_dec", "_inv_ra_dec", "cos")):
        f = ap.methods[fw]
        outs = [find_stmt(f"x_prime[self.prime_parameters[{i}]] = $a", f.node) for i in range(3)]
        bj = [n for n in walk_no_nested(f.node) if isinstance(n, ast.AugAssign) and src(n.target) == "log_j"]
        ok = all(len(o) == 1 for o in outs) and len(bj) == 1 and isinstance(bj[0].op, ast.Add)
        if ok:
            S = sym.Sym()
            h, v, r = S.symbol("h"), S.symbol("v"), S.symbol("r")
            sub = sym.Sym(subst={"x[self.parameters[0]]": h, "x[self.parameters[1]]": v, "r": r})
            exprs = [sub.conv(o[0][1]["a"]) for o in outs]
            J = sub.conv(bj[0].value)
            ok = sym.differs_from_log_abs_by_constant(J, sym.det_jacobian(exprs, [h, v, r]), [h, v, r])
        ctx.ob("R-ALG", "C07.4", f, f"AnglePair.{fw}: spherical -> Cartesian; the accumulated 2 log r + log {polar}(polar angle) equals log|det| of the map up to a constant", bool(ok), "")
        g = ap.methods[iv]
        ok, n_paths = True, 0
        S = sym.Sym(positive=False)
        X, Y, Z = S.symbol("X"), S.symbol("Y"), S.symbol("Z")
        subst = {f"x_prime[self.prime_parameters[{i}]]": s_ for i, s_ in enumerate((X, Y, Z))}
        for outs_, J_ in _map_paths(g, subst, ["x[self.parameters[0]]", "x[self.parameters[1]]", "x[self.parameters[2]]"], alias={"x[self.parameters[-1]]": "x[self.parameters[2]]"}):
            n_paths += 1
            ok = ok and all(o_ is not None for o_ in outs_) and sym.differs_from_log_abs_by_constant(J_, sym.det_jacobian(outs_, [X, Y, Z]), [X, Y, Z])
        ok = ok and n_paths >= 2
        ctx.ob("R-ALG", "C07.4", g, f"AnglePair.{iv}: Cartesian -> spherical; the accumulated -2 log r - log {polar}(polar angle) equals log|det| of the inverse map up to a constant", bool(ok), "")
    dp = prog.cls("nessai.gw.reparameterisations:DeltaPhaseReparameterisation")
    for m, pat in (("reparameterise", "x_prime[self.prime_parameters[0]] = x[self.parameters[0]] + $t"), ("inverse_reparameterise", "x[self.parameters[0]] = mod(x_prime[self.prime_parameters[0]] - $t, 2 * pi)")):
        f = dp.methods[m]
        b = find_stmt(pat, f.node)
        touches = [n for n in walk_no_nested(f.node) if isinstance(n, (ast.AugAssign, ast.Assign)) and "log_j" in src(n.targets[0] if isinstance(n, ast.Assign) else n.target)]
        okd = len(b) == 1 and not touches and "self.parameters[0]" not in src(b[0][1]["t"]) and "prime_parameters" not in src(b[0][1]["t"])
        ctx.ob("R-ALG", "C07.4", f, f"DeltaPhase.{m}: a shift by a quantity that does not depend on the mapped parameter (unit Jacobian, log_j untouched)", okd, "")
    tb = [src(b[0][1]["t"]) for m, pat in (("reparameterise", "x_prime[self.prime_parameters[0]] = x[self.parameters[0]] + $t"), ("inverse_reparameterise", "x[self.parameters[0]] = mod(x_prime[self.prime_parameters[0]] - $t, 2 * pi)")) for b in [find_stmt(pat, dp.methods[m].node)] if b]
    ctx.ob("R-ALG", "C07.4", dp.qual, "DeltaPhase: the inverse subtracts exactly the term the forward map adds", len(tb) == 2 and tb[0] == tb[1], f"{tb}")
    nr = prog.cls(REP + ".null:NullReparameterisation")
    ctx.ob("R-ALG", "C07.4", nr.qual, "NullReparameterisation copies the parameters both ways and leaves log_j untouched", len(find_stmt("x_prime[self.prime_parameters] = x[self.parameters]", nr.methods["reparameterise"].node)) == 1 and len(find_stmt("x[self.parameters] = x_prime[self.prime_parameters]", nr.methods["inverse_reparameterise"].node)) == 1, "")
    # a clip inside an elementary map is the identity only if its bounds enclose every legal input: bounds that the class
    # re-learns from the live points (`update_bounds(x)` stores min / max of the training data into self.bounds) do not -
    # a prior-box point outside the current data range would come back moved onto the edge (inverse o forward != id)
    DATA_PARAMS = {"x", "x_prime", "live_points", "samples", "points"}
    for cf_, cn_, cb_ in list(CLIPS):
        attrs_ = {n_.attr for b_ in cb_ for n_ in ast.walk(b_) if isinstance(n_, ast.Attribute) and isinstance(n_.value, ast.Name) and n_.value.id == "self"}
        # locals of the map that name such attributes
        loc_ = {s_.targets[0].id if isinstance(s_.targets[0], ast.Name) else None: s_.value for s_ in walk_no_nested(cf_.node) if isinstance(s_, ast.Assign) and len(s_.targets) == 1}
        for s_ in walk_no_nested(cf_.node):
            if isinstance(s_, ast.Assign) and len(s_.targets) == 1 and isinstance(s_.targets[0], ast.Tuple) and any(isinstance(t_, ast.Name) and any(isinstance(n_, ast.Name) and n_.id == t_.id for b_ in cb_ for n_ in ast.walk(b_)) for t_ in s_.targets[0].elts):
                attrs_ |= {n_.attr for n_ in ast.walk(s_.value) if isinstance(n_, ast.Attribute) and isinstance(n_.value, ast.Name) and n_.value.id == "self"}
        for b_ in cb_:
            for n_ in ast.walk(b_):
                if isinstance(n_, ast.Name) and loc_.get(n_.id) is not None:
                    attrs_ |= {m_.attr for m_ in ast.walk(loc_[n_.id]) if isinstance(m_, ast.Attribute) and isinstance(m_.value, ast.Name) and m_.value.id == "self"}
        learned_ = []
        if cf_.cls is not None:
            for k_ in [cf_.cls] + prog.subclasses(cf_.cls) + prog.mro(cf_.cls):
                for m_ in k_.methods.values():
                    ps_ = set(m_.params()) & DATA_PARAMS
                    if not ps_:
                        continue
                    for s_ in walk_no_nested(m_.node):
                        if isinstance(s_, (ast.Assign, ast.AugAssign)):
                            for t_ in (s_.targets if isinstance(s_, ast.Assign) else [s_.target]):
                                b0_ = t_
                                while isinstance(b0_, ast.Subscript):
                                    b0_ = b0_.value
                                if isinstance(b0_, ast.Attribute) and isinstance(b0_.value, ast.Name) and b0_.value.id == "self" and b0_.attr in attrs_ and any(isinstance(x_, ast.Name) and x_.id in ps_ for x_ in ast.walk(s_.value)):
                                    learned_.append(f"self.{b0_.attr} (stored from `{sorted(ps_)[0]}` in {m_.short})")
        ctx.ob("R-ALG", "C07.4", cf_, "a clip inside an elementary map uses bounds that are not re-learned from the live points (else it is not the identity on the prior box)", not learned_, f"`{src(cn_)[:70]}`" + (f": {sorted(set(learned_))[0]}" if learned_ else ""), node=cn_)
    ctx.floor("C07.4", 30)

    # ---- C07.5 mirror order ---------------------------------------------------------------------
    fwd, inv = rtb.methods["reparameterise"], rtb.methods["inverse_reparameterise"]
    lf = [n for n in walk_no_nested(fwd.node) if isinstance(n, ast.For)]
    li = [n for n in walk_no_nested(inv.node) if isinstance(n, ast.For)]
    ok = len(lf) == 1 and len(li) == 1 and src(lf[0].iter) == "zip(self.parameters, self.prime_parameters)" and src(li[0].iter) == "zip(reversed(self.parameters), reversed(self.prime_parameters))"
    ctx.ob("R-SIB", "C07.5", inv, "RescaleToBounds: the inverse iterates the parameters in reversed order", ok, "")
    if ok:
        rf_ = {src(lf[0].target.elts[0]): "p", src(lf[0].target.elts[1]): "pp"} if isinstance(lf[0].target, ast.Tuple) else {}
        ri_ = {src(li[0].target.elts[0]): "p", src(li[0].target.elts[1]): "pp"} if isinstance(li[0].target, ast.Tuple) else {}
        steps_f = [ast.unparse(canon_node(s, rename=rf_).test) for s in lf[0].body if isinstance(s, ast.If)]
        steps_i = [ast.unparse(canon_node(s, rename=ri_).test) for s in li[0].body if isinstance(s, ast.If)]
        ctx.ob("R-SIB", "C07.5", inv, "RescaleToBounds: the inverse undoes the steps of the forward map in reverse order under the same guards (post-rescaling, inversion-or-bounds, pre-rescaling)", steps_f == ["self.has_pre_rescaling", "self.boundary_inversion and p in self.boundary_inversion", "self.has_post_rescaling"] and steps_i == list(reversed(steps_f)), f"forward {steps_f}; inverse {steps_i}")
        calls_f = [[c.func.attr for c in walk_no_nested(s) if isinstance(c, ast.Call) and isinstance(c.func, ast.Attribute) and isinstance(c.func.value, ast.Name) and c.func.value.id == "self"] for s in lf[0].body if isinstance(s, ast.If)]
        calls_i = [[c.func.attr for c in walk_no_nested(s) if isinstance(c, ast.Call) and isinstance(c.func, ast.Attribute) and isinstance(c.func.value, ast.Name) and c.func.value.id == "self"] for s in li[0].body if isinstance(s, ast.If)]
        want_f = [["pre_rescaling"], ["_rescale_to_bounds", "_apply_inversion"], ["post_rescaling"]]
        want_i = [["post_rescaling_inv"], ["_inverse_rescale_to_bounds", "_reverse_inversion"], ["pre_rescaling_inv"]]
        ctx.ob("R-SIB", "C07.5", inv, "each inverse step calls the inverse of the matching forward step", [sorted(c) for c in calls_f] == [sorted(c) for c in want_f] and [sorted(c) for c in calls_i] == [sorted(c) for c in want_i], f"forward {calls_f}; inverse {calls_i}")
        offf = find_stmt("x_prime[$$pp], $$lj = self._rescale_to_bounds(x_prime[$$pp] - self.offsets[$$p], $$p)", fwd.node)
        offi = find_stmt("x[$$p] += self.offsets[$$p]", inv.node)
        ctx.ob("R-SIB", "C07.5", inv, "the offset subtracted before rescaling is added back after the inverse rescaling", len(offf) == 1 and len(offi) == 1, "")
    comb = prog.cls(tables.COMBINED)
    tp, fp_ = comb.methods["to_prime_order"], comb.methods["from_prime_order"]
    T_, F_ = {nfact("self.reverse_order", True)}, {nfact("self.reverse_order", False)}
    okc = returns_under(tp) == {"reversed(self.order)": [T_], "self.order": [F_]} and returns_under(fp_) == {"self.order": [T_], "reversed(self.order)": [F_]}
    ctx.ob("R-SIB", "C07.5", comb.qual, "CombinedReparameterisation: the from-prime order is the reverse of the to-prime order in both settings of reverse_order", okc, "")
    for m, order in (("reparameterise", "self.to_prime_order"), ("inverse_reparameterise", "self.from_prime_order")):
        f = comb.methods[m]
        okm = len(find_stmt(f"for $$k in {order}:\n    x, x_prime, log_j = self[$$k].{m}(x, x_prime, log_j, **kwargs)", f.node)) == 1
        ctx.ob("R-SIB", "C07.5", f, f"CombinedReparameterisation.{m} threads (x, x_prime, log_j) through every member in {order.split('.')[-1]}", okm, "")
    ctx.floor("C07.5", 7)

    # ---- C07.6 non-sampling fields carried ----------------------------------------------------------
    fpc = prog.cls(tables.FP)
    for m in ("rescale", "inverse_rescale"):
        f = fpc.methods[m]
        fa = FA(f)
        loops = [n for n in fa.nodes() if n.kind == "for" and "config.livepoints.non_sampling_parameters" in src(n.ast.iter)]
        callm = fa.find_calls("self._reparameterisation.reparameterise" if m == "rescale" else "self._reparameterisation.inverse_reparameterise")
        ok = len(loops) == 1 and len(callm) == 1 and fa.dominates(callm[0][0], loops[0].id) and fa.on_every_normal_path(loops[0].id)
        body_ok = len(loops) == 1 and len(loops[0].ast.body) == 1 and match_stmt("$$dst[$$p] = $$srcv[$$p]", loops[0].ast.body[0]) is not None
        ctx.ob("R-ORDER", "C07.6", f, f"FlowProposal.{m} copies every non-sampling field to its result after the map, on every path", ok and body_ok, "")
    # forward / inverse symmetry of the per-class field lists: whatever list of extra fields a proposal class fills in its
    # effective rescale (the MRO method plus any wrapper it installs with `self.rescale = self.<m>`) must also be filled by
    # its effective inverse_rescale - otherwise those fields of the x-space array stay at the NaN they were allocated with
    def _effective(k, name):
        out = []
        m_ = prog.find_method(k, name)
        if m_ is not None:
            out.append(m_)
        for kk in prog.mro(k):
            for mm in kk.methods.values():
                for st_ in walk_no_nested(mm.node):
                    if isinstance(st_, ast.Assign) and any(is_self_attr(t_, name) for t_ in st_.targets) and isinstance(st_.value, ast.Attribute) and isinstance(st_.value.value, ast.Name) and st_.value.value.id == "self":
                        w_ = prog.find_method(k, st_.value.attr)
                        if w_ is not None and w_ not in out:
                            out.append(w_)
        return out

    def _field_lists(fns):
        out = set()
        for f_ in fns:
            for n_ in walk_no_nested(f_.node):
                if isinstance(n_, ast.For) and isinstance(n_.target, ast.Name):
                    for b_ in ast.walk(n_):
                        if isinstance(b_, ast.Assign) and any(isinstance(t_, ast.Subscript) and isinstance(t_.slice, ast.Name) and t_.slice.id == n_.target.id for t_ in b_.targets):
                            out.add(canon(n_.iter))
        return out

    n_sym = 0
    for k in [fpc] + prog.subclasses(fpc):
        fl, il = _field_lists(_effective(k, "rescale")), _field_lists(_effective(k, "inverse_rescale"))
        n_sym += 1
        ctx.ob("R-SIB", "C07.6", k.qual, f"{k.name}: every list of extra fields filled by the (effective) rescale is also filled by the (effective) inverse_rescale", fl <= il, f"rescale fills {sorted(fl)}; inverse_rescale fills {sorted(il)}; missing in the inverse: {sorted(fl - il)}")
    ctx.floor("C07.6", 2 + 5)

    # ---- C07.7 update / reset completeness ---------------------------------------------------------------
    for k in concrete:
        up, rs = prog.find_method(k, "update"), prog.find_method(k, "reset")
        if up is None or up.cls is base:
            continue
        sa = SelfAttrs(prog, k)
        wu = may_write(prog, k, up)
        wr = may_write(prog, k, rs) if rs is not None else set()
        ctx.ob("R-WRITERS", "C07.7", k.qual, f"{k.name}: everything the data-dependent update() can change is restored by reset()", wu <= wr, f"update writes {sorted(wu)}; reset writes {sorted(wr)}; not reset: {sorted(wu - wr)}")
    for m in ("set_bounds", "update_bounds"):
        f = rtb.methods[m]
        fa = FA(f)
        st = [n for n, s in fa.assigns_to_attr("bounds")]
        up = fa.find_calls("self.update_prime_prior_bounds")
        ctx.ob("R-ORDER", "C07.7", f, f"RescaleToBounds.{m}: the prime-space prior bounds are recomputed after every write of the bounds", len(st) == 1 and len(up) == 1 and fa.cfg.must_pass(st[0], fa.cfg.exit, [up[0][0]]), "")
    ai = rtb.methods["_apply_inversion"]
    aia = FA(ai)
    st = [n for n, s in aia.assigns_to_attr("_edges")]
    up = aia.find_calls("self.update_prime_prior_bounds")
    ctx.ob("R-ORDER", "C07.7", ai, "RescaleToBounds._apply_inversion: the prime-space prior bounds are recomputed after an edge was (re)detected", len(st) == 1 and len(up) == 1 and aia.cfg.must_pass(st[0], aia.cfg.exit, [up[0][0]]), "")
    vr = fpc.methods["verify_rescaling"]
    va = FA(vr)
    rcall = va.find_calls("self._reparameterisation.reset")
    ctx.ob("R-ORDER", "C07.7", vr, "verify_rescaling ends by resetting the reparameterisation state it touched, on every normal path", len(rcall) >= 1 and va.cfg.every_exit_path_passes(va.cfg.entry, [c[0] for c in rcall]), "")
    ctx.floor("C07.7", 6)

    # ---- C07.8 the prime-space prior is offered only when it is the original prior / Jacobian ------------------
    # a post-rescaling (logit / log / user pair) is not measure preserving for a uniform prior, so it must switch the
    # offered prime prior off, and nothing may switch it back on afterwards
    from ..callgraph import callgraph as _cg
    from ..q import holds as _holds
    import networkx as _nx
    g_, _s = _cg(prog)
    cpr = rtb.methods["configure_post_rescaling"]
    ca = FA(cpr)
    offs = ca.find(lambda s_: match_stmt("self.has_prime_prior = False", s_) is not None)
    okoff = len(offs) == 1 and _holds(guard_facts(ca, offs[0]), "post_rescaling is not None")
    marks = ca.find(lambda s_: match_stmt("self.has_post_rescaling = True", s_) is not None)
    ctx.ob("R-ORDER", "C07.8", cpr, "configuring a post-rescaling switches the offered prime prior off (and records has_post_rescaling) on every such path", okoff and len(marks) == 1 and ca.cfg.must_pass(offs[0], ca.cfg.exit, marks) or (okoff and len(marks) == 1 and ca.dominates(offs[0], marks[0])), "")
    fam = [rtb] + prog.subclasses(rtb)
    n_on = 0
    for k in fam:
        for f in k.methods.values():
            fa = FA(f)
            for nid in fa.find(lambda s_: match_stmt("self.has_prime_prior = True", s_) is not None):
                n_on += 1
                after = []
                for cid, c in fa.find_expr(lambda e: isinstance(e, ast.Call)):
                    tg = res.resolve_call(f, c, count=False) or []
                    if any(h.qual == cpr.qual or (h.qual in g_ and cpr.qual in _nx.descendants(g_, h.qual)) for h in tg):
                        if fa.cfg.can_follow(cid, nid):
                            after.append(src(c)[:60])
                guarded = any((src(e) == "self.has_post_rescaling" and t is False) or (src(e) == "not self.has_post_rescaling" and t is True) for e, t in guard_facts(fa, nid))
                ctx.ob("R-ORDER", "C07.8", f, "the prime prior is never switched (back) on after a post-rescaling may have been configured, unless guarded by `not has_post_rescaling`", not after or guarded,
                       f"`self.has_prime_prior = True` can execute after {after}: with a post-rescaling the offered (flat / transformed-bounds) prime prior is not the original prior divided by the Jacobian" if after else "")
    ctx.require(n_on >= 2, "stores `self.has_prime_prior = True` not found")
    ctx.floor("C07.8", 3)

    # ---- C07.9 the Cartesian (Gaussian) prime prior of the angle maps assumes the auxiliary chi radius -------------
    # Angle / AnglePair draw a radius from self.chi only when the user gave no radial parameter; the prime prior they
    # offer (log_2d/3d_cartesian_prior: a unit Gaussian) is the original prior divided by the Jacobian only in that
    # case - with a user radial parameter, whose prior is the model's, it must not be offered
    from ..q import holds as _holds9
    n_chi = 0
    for c_ in [base] + prog.subclasses(base):
        own = [f_ for f_ in c_.methods.values()]
        if not any(isinstance(n_, ast.Attribute) and isinstance(n_.ctx, ast.Store) and n_.attr == "chi" and isinstance(n_.value, ast.Name) and n_.value.id == "self" for f_ in own for n_ in walk_no_nested(f_.node)):
            continue
        for f_ in own:
            fa_ = FA(f_)
            for nid_ in fa_.find(lambda s_: isinstance(s_, ast.Assign) and any(src(t_) == "self.has_prime_prior" for t_ in s_.targets)):
                v_ = fa_.stmt(nid_).value
                if isinstance(v_, ast.Constant) and v_.value in (False, None):
                    continue
                n_chi += 1
                conj_ = [src(e_) for e_, t_ in conjuncts(v_, True) if t_]
                ok_ = _holds9(guard_facts(fa_, nid_), "self.chi", True) or any(x_ in ("self.chi", "bool(self.chi)") for x_ in conj_)
                ctx.ob("R-DOM", "C07.9", f_, "the Gaussian prime prior of an angle map is offered only with the auxiliary chi radius (guard: self.chi), never with a user-supplied radial parameter", ok_, f"`{src(fa_.stmt(nid_))}` under {[(src(e_), t_) for e_, t_ in guard_facts(fa_, nid_)]}", node=fa_.stmt(nid_))
    ctx.require(n_chi >= 2, f"only {n_chi} stores that switch the prime prior on in the angle reparameterisations")
    ctx.floor("C07.9", 2)

    # ---- C07.11 the prime-prior bounds are computed for the map that is applied ---------------------------------------
    # RescaleToBounds applies the boundary inversion to parameter p exactly when `boundary_inversion and p in
    # boundary_inversion`; determine_rescaled_bounds must be told the same thing (its `inversion` flag), otherwise the
    # offered prime prior has the support of a map that is not the one used
    from ..summ import _expand as _exp11
    import copy as _copy11

    def _pred_lits(e_):
        """set of alternative literal sets under which e_ is true (IfExp with a False arm and `x in (B or {})` unfolded)"""
        class U(ast.NodeTransformer):
            def visit_IfExp(self, n_):
                self.generic_visit(n_)
                if isinstance(n_.orelse, ast.Constant) and n_.orelse.value is False:
                    return ast.BoolOp(op=ast.And(), values=[n_.test, n_.body])
                return n_

            def visit_Compare(self, n_):
                self.generic_visit(n_)
                c_ = n_.comparators[0] if len(n_.ops) == 1 else None
                if isinstance(n_.ops[0], ast.In) and isinstance(c_, ast.BoolOp) and isinstance(c_.op, ast.Or) and len(c_.values) == 2 and isinstance(c_.values[1], (ast.Dict, ast.List, ast.Tuple, ast.Set)) and not getattr(c_.values[1], "elts", getattr(c_.values[1], "keys", [])):
                    return ast.BoolOp(op=ast.And(), values=[c_.values[0], ast.Compare(left=n_.left, ops=[ast.In()], comparators=[c_.values[0]])])
                return n_

        e2_ = U().visit(_copy11.deepcopy(e_))
        return {frozenset((canon(x_), t_) for x_, t_ in alt_) for alt_ in _exp11(e2_, True)}

    rtb11 = prog.cls(RTB)
    want11 = None
    for mname_, callee_ in (("reparameterise", "_apply_inversion"), ("inverse_reparameterise", "_reverse_inversion")):
        m11 = rtb11.methods[mname_]
        fa11 = FA(m11)
        calls11 = fa11.find_calls("self." + callee_)
        ctx.require(len(calls11) == 1, f"RescaleToBounds.{mname_}: call of {callee_} not found")
        loopvar = next((n_.ast.target.elts[0].id for n_ in fa11.nodes() if n_.kind == "for" and isinstance(n_.ast.target, ast.Tuple) and isinstance(n_.ast.target.elts[0], ast.Name)), "p")
        lits11 = frozenset((canon(e_, rename={loopvar: "p"}), t_) for e_, t_ in guard_facts(fa11, calls11[0][0]) if "boundary_inversion" in src(e_))
        want11 = want11 or lits11
        ctx.ob("R-SIB", "C07.11", m11, "the boundary inversion is applied to p exactly when `boundary_inversion and p in boundary_inversion` (same predicate forwards and backwards)", lits11 == want11 and lits11 == frozenset({("self.boundary_inversion", True), ("p in self.boundary_inversion", True)}), f"{sorted(lits11)}")
    up11 = rtb11.methods["update_prime_prior_bounds"]
    inl11 = single_assignments(up11.node)
    drb = [c_ for c_ in ast.walk(up11.node) if isinstance(c_, ast.Call) and (call_name(c_) or "").endswith("determine_rescaled_bounds")]
    ctx.require(len(drb) == 1, "update_prime_prior_bounds: determine_rescaled_bounds call not found")
    inv_kw = next((k_.value for k_ in drb[0].keywords if k_.arg == "inversion"), None)
    got11 = None
    if inv_kw is not None:
        from ..canon import canon_node as _cn11
        # the parameter the bounds are computed for: the variable of the loop / comprehension the call sits in
        var11 = None
        for o_ in ast.walk(up11.node):
            tg_ = o_.generators[0].target if isinstance(o_, (ast.DictComp, ast.ListComp, ast.GeneratorExp, ast.SetComp)) else (o_.target if isinstance(o_, ast.For) else None)
            if tg_ is not None and any(x_ is drb[0] for x_ in ast.walk(o_)):
                # `for p in parameters` or `for p, pp in zip(parameters, prime_parameters)`: the physical parameter comes first
                tg_ = tg_.elts[0] if isinstance(tg_, ast.Tuple) and tg_.elts else tg_
                if isinstance(tg_, ast.Name):
                    var11 = tg_.id

        class _Sub11(ast.NodeTransformer):
            def visit_Name(self, n_):
                if var11 is not None and n_.id == var11:
                    return ast.copy_location(ast.Name(id="p", ctx=n_.ctx), n_)
                return _copy11.deepcopy(inl11[n_.id]) if isinstance(n_.ctx, ast.Load) and n_.id in inl11 else n_

        got11 = _pred_lits(_cn11(_Sub11().visit(_copy11.deepcopy(inv_kw))))
    ctx.ob("R-SIB", "C07.11", up11, "the prime-prior bounds are computed with inversion=True for exactly the parameters the map inverts", got11 == {want11}, f"inversion=`{src(inv_kw) if inv_kw is not None else None}` -> {sorted(map(sorted, got11)) if got11 else None}")
    ctx.floor("C07.11", 3)

    # ---- C07.12 the bounds function computes the image of the prior box under the map it is told about -------------------
    # determine_rescaled_bounds is enumerated over its ten (inversion, invert) configurations: the guards of every path
    # are evaluated on the configuration (they only mention these two arguments), and the returned pair is compared, by
    # computer algebra, with the documented image of [prior_min, prior_max]: the affine map onto rescale_bounds without
    # inversion; with inversion the map onto [0, 1] followed by 2y - 1 (no edge), (y - 1, 1 - y) (upper), (-y, y) (lower),
    # (-0.5, 1.5) (both).  RescaleToBounds forces rescale_bounds = [0, 1] for inverted parameters while _apply_inversion
    # maps to [-1, 1] when no edge is found: a no-edge case that falls back to rescale_bounds halves the prime prior.
    drb_f = ctx.fn("nessai.utils.rescaling:determine_rescaled_bounds")
    from ..summ import summarise as _summ712

    sp_ = sym.sp
    S12 = sym.Sym(positive=False)
    pmin, pmax, off_, xmin_, xmax_, rb0, rb1 = [S12.symbol(n_) for n_ in ("prior_min", "prior_max", "offset", "x_min", "x_max", "rescale_bounds[0]", "rescale_bounds[1]")]
    L0 = (pmin - off_ - xmin_) / (xmax_ - xmin_)
    U0 = (pmax - off_ - xmin_) / (xmax_ - xmin_)
    subst12 = {"prior_min": pmin, "prior_max": pmax, "offset": off_, "x_min": xmin_, "x_max": xmax_, "rescale_bounds[0]": rb0, "rescale_bounds[1]": rb1}

    def _want(inv_, edge_):
        if not inv_:
            return ((rb1 - rb0) * L0 + rb0, (rb1 - rb0) * U0 + rb0)
        if edge_ in (None, False):
            return (2 * L0 - 1, 2 * U0 - 1)
        if edge_ == "upper":
            return (L0 - 1, 1 - L0)
        if edge_ == "lower":
            return (-U0, U0)
        return (sp_.Rational(-1, 2), sp_.Rational(3, 2))

    def _holds12(test_, truth_, env_):
        if canon(test_) in ("x_max == x_min", "x_min == x_max"):
            return truth_ is False
        try:
            v_ = eval(compile(ast.fix_missing_locations(ast.Expression(body=_copy11.deepcopy(test_))), "<guard>", "eval"), {"__builtins__": {"bool": bool, "isinstance": isinstance, "str": str}}, dict(env_))
        except Exception:
            return None
        return bool(v_) == truth_

    try:
        dpaths = [pa_ for pa_ in _summ712(drb_f.node, max_paths=400)]
    except ValueError as e_:
        raise AnalysisError(f"determine_rescaled_bounds: {e_} (ANALYSIS-INCOMPLETE)")
    n_cfg = 0
    for inv_ in (False, True):
        for edge_ in (None, False, "upper", "lower", "both"):
            env_ = {"inversion": inv_, "invert": edge_}
            taken = []
            undecided = False
            for pa_ in dpaths:
                hs_ = [_holds12(t_, tr_, env_) for t_, tr_ in pa_.guards]
                if any(h_ is None for h_ in hs_):
                    undecided = True
                elif all(hs_):
                    taken.append(pa_)
            ok12, detail12 = False, ""
            if undecided:
                raise AnalysisError("determine_rescaled_bounds: a guard mentions something other than (inversion, invert): ANALYSIS-INCOMPLETE")
            if len(taken) == 1 and taken[0].end == "return" and isinstance(taken[0].ret, ast.Tuple) and len(taken[0].ret.elts) == 2:
                try:
                    got_ = [sym.Sym(subst=subst12, positive=False).conv(e_) for e_ in taken[0].ret.elts]
                    ok12 = all(sym.is_zero(g_ - w_) for g_, w_ in zip(got_, _want(inv_, edge_)))
                    detail12 = f"returns ({', '.join(src(e_)[:60] for e_ in taken[0].ret.elts)})"
                except AnalysisError as e_:
                    detail12 = str(e_)[:120]
            else:
                detail12 = f"{len(taken)} path(s) taken, end {[pa_.end for pa_ in taken]}"
            n_cfg += 1
            ctx.ob("R-ALG", "C07.12", drb_f, f"determine_rescaled_bounds(inversion={inv_}, invert={edge_!r}) returns the image of the prior box under the map applied in that configuration", ok12, detail12)
    ctx.floor("C07.12", 10)

    # ---- C07.10 evaluating a prior (or a bounds / likelihood wrapper) never changes the points it is given ---------------
    # Angle.x_prime_log_prior hands field views of the prime-space live points to the functions of nessai.priors; an
    # in-place store there rewrites the proposal's points (found: log_2d_cartesian_prior_sine clipped y in place)
    import re as _re10
    from ..rules.alias import _modified_in_place as _mip
    n_ev_ = 0
    for f_ in prog.all_functions:
        if not (f_.module.name == "nessai.priors" or _re10.search(r"log_prior|log_prob$|log_likelihood|in_bounds|in_unit_hypercube", f_.name)):
            continue
        for p_ in f_.params():
            if p_ in ("self", "cls"):
                continue
            n_ev_ += 1
            m_ = _mip(f_.node, p_)
            ctx.ob("R-PURE", "C07.10", f_, f"the evaluator does not write into its argument `{p_}`", m_ is None, f"`{src(m_)[:60]}` modifies the caller's array in place" if m_ is not None else "", node=m_)
    ctx.require(n_ev_ >= 30, f"only {n_ev_} evaluator parameters found")
    ctx.floor("C07.10", 30)
    ctx.assumptions += ["the algebraic identities hold on the interior of the domain (positive symbols; the measure-zero singular sets named in the property are excluded)", "sympy's simplifier is trusted for the identities it proves; an identity it cannot prove is reported as ANALYSIS-INCOMPLETE or a failed obligation, never silently passed", "numerical round-trip error, support equality of prime priors and edge points are not decided"]


def _in_same_loop(fnode, stmt):
    for n in ast.walk(fnode):
        if isinstance(n, ast.For) and stmt in n.body:
            return True
    return False


def init_keywords(prog, cls):
    """Keyword names accepted by cls(...) following **kwargs forwarding to super().__init__."""
    out = set()
    for k in prog.mro(cls):
        init = k.methods.get("__init__")
        if init is None:
            continue
        a = init.node.args
        out |= {x.arg for x in a.args[1:]} | {x.arg for x in a.kwonlyargs}
        if a.kwarg is None:
            break
    return out


def may_write(prog, cls, f, depth=0, seen=None):
    """self attributes f may write (directly or through self.m() calls)."""
    seen = seen or set()
    if f is None or f.qual in seen or depth > 4:
        return set()
    seen.add(f.qual)
    out = set()
    for n in walk_no_nested(f.node):
        if isinstance(n, ast.Attribute) and isinstance(n.ctx, ast.Store) and isinstance(n.value, ast.Name) and n.value.id == "self":
            out.add(n.attr)
        if isinstance(n, ast.Subscript) and isinstance(n.ctx, ast.Store) and isinstance(n.value, ast.Attribute) and isinstance(n.value.value, ast.Name) and n.value.value.id == "self":
            out.add(n.value.attr)
        if isinstance(n, ast.Call) and isinstance(n.func, ast.Attribute) and isinstance(n.func.value, ast.Name) and n.func.value.id == "self":
            out |= may_write(prog, cls, prog.find_method(cls, n.func.attr), depth + 1, seen)
    return out


CLAIM = {
    "text": "Decides, from the source formulas themselves: (1) every concrete reparameterisation implements both directions, accepts **kwargs and returns the (x, x_prime, log_j) triple, every distance converter both directions with (value, log_j); (2) every registry entry (general, GW, rescaling functions, GW aliases) names a class / pair that exists and only constructor keywords it accepts; (3) on the CFG of every reparameterisation method, the log-Jacobian returned by each elementary map is added to log_j on every path before being re-bound or returned, threaded helpers re-bind log_j, and log_j is never overwritten; (4) by computer algebra on the extracted expressions: for every built-in elementary map (zero-to-one, minus-one-to-one, logit/sigmoid, log/exp, rescale-to-bounds, scale-and-shift, power-law distance, polar Angle, spherical AnglePair in both conventions, delta-phase, null) the reported log-Jacobian differs from log|det of the derivative of the map formula| by a constant, inverse(forward(x)) simplifies to x for the scalar pairs, and the two reported log-Jacobians are negatives at corresponding points; (5) the inverse of RescaleToBounds / CombinedReparameterisation undoes the forward steps in reverse order under the same guards; (6) both FlowProposal directions copy every non-sampling field; (7) whatever update() may change reset() restores, and the prime-prior bounds are recomputed after every change of bounds / detected edges. Typestate: once a post-rescaling switched the offered prime prior off nothing switches it back on unguarded. Forward / inverse symmetry of per-class field lists: whatever extra fields a proposal class fills in its effective rescale (MRO method plus installed wrappers) are also filled by its effective inverse_rescale (found and repaired: AugmentedFlowProposal left the augment fields NaN). The Gaussian prime prior of the angle maps is offered only with the auxiliary chi radius (C07.9; found and repaired the missing guard in Angle). An option string that is looked up case-insensitively is compared with its literal values under the same normalisation (R-NORM; found and repaired post_rescaling='Logit'). A clip inside an elementary map is read as the identity on the map's domain, and its bounds must not be an attribute that the class re-learns from the live points (C07.4).",
    "note": "Identities are decided on the regular interior of the domain (the singular sets excluded by the property) with sympy as the normaliser of extracted straight-line expressions - no repository code is executed and no path is explored. Numerical round-trip error, the comoving-distance interpolant (declares no Jacobian), support equality of prime priors and edge points are not decided.",
}

_R = "nessai/utils/rescaling.py"
_RS = "nessai/reparameterisations/rescale.py"
_AN = "nessai/reparameterisations/angle.py"
_GW = "nessai/gw/utils.py"
MUTANTS = [
    {"id": "inverse-clipped-to-learned-bounds", "file": "nessai/reparameterisations/rescale.py", "old": "        ) / self._rescale_factor[n] + self.bounds[n][0]\n\n        log_j = np.log(self.bounds[n][1] - self.bounds[n][0]) - np.log(", "new": "        ) / self._rescale_factor[n] + self.bounds[n][0]\n        out = np.clip(out, self.bounds[n][0], self.bounds[n][1])\n\n        log_j = np.log(self.bounds[n][1] - self.bounds[n][0]) - np.log(", "expect": "a clip inside an elementary map"},
    {"id": "no-edge-bounds-from-rescale-bounds", "file": "nessai/utils/rescaling.py", "old": "    elif not invert or invert is None:\n        return 2 * lower - 1, 2 * upper - 1\n", "new": "    elif not invert or invert is None:\n        return lower, upper\n", "expect": "returns the image of the prior box"},
    {"id": "augment-fields-not-carried-back", "file": "nessai/proposal/augmented.py", "old": "        self._base_inverse_rescale = self.inverse_rescale\n        self.inverse_rescale = self._augmented_inverse_rescale\n", "new": "", "expect": "also filled by the (effective) inverse_rescale"},
    {"id": "missing-inverse", "file": "nessai/gw/reparameterisations.py", "old": "    def inverse_reparameterise(self, x, x_prime, log_j, **kwargs):", "new": "    def _inverse(self, x, x_prime, log_j, **kwargs):", "expect": "DeltaPhaseReparameterisation.inverse_reparameterise is implemented"},
    {"id": "registry-bad-keyword", "file": "nessai/reparameterisations/__init__.py", "old": '"offset": (RescaleToBounds, {"offset": True}),', "new": '"offset": (RescaleToBounds, {"offsets": True}),', "expect": "registry entry 'offset'"},
    {"id": "alias-unregistered", "file": "nessai/gw/proposal.py", "old": '"geocent_time": ("time", None),', "new": '"geocent_time": ("time-offset", None),', "expect": "GW alias 'geocent_time'"},
    {"id": "jacobian-dropped", "file": _RS, "old": "            if self.has_post_rescaling:\n                x_prime[pp], lj = self.post_rescaling(x_prime[pp])\n                log_j += lj\n", "new": "            if self.has_post_rescaling:\n                x_prime[pp], lj = self.post_rescaling(x_prime[pp])\n", "expect": "self.post_rescaling"},
    {"id": "jacobian-subtracted", "file": _RS, "old": "                x[p], lj = self._inverse_rescale_to_bounds(x[p], p)\n                x[p] += self.offsets[p]\n                log_j += lj", "new": "                x[p], lj = self._inverse_rescale_to_bounds(x[p], p)\n                x[p] += self.offsets[p]\n                log_j -= lj", "expect": "self._inverse_rescale_to_bounds"},
    {"id": "threaded-logj-dropped", "file": _RS, "old": "                x, x_prime, log_j = self._reverse_inversion(\n                    x, x_prime, log_j, p, pp, **kwargs\n                )", "new": "                x, x_prime, _ = self._reverse_inversion(\n                    x, x_prime, log_j, p, pp, **kwargs\n                )", "expect": "threaded through"},
    {"id": "logit-jacobian-sign", "file": _R, "old": "    log_j = -np.log(x) - np.log1p(-x)\n", "new": "    log_j = -np.log(x) + np.log1p(-x)\n", "expect": "logit"},
    {"id": "sigmoid-jacobian-in-wrong-variable", "file": _R, "old": "        x = np.divide(1, 1 + np.exp(-x))\n        log_j = np.log(x) + np.log1p(-x)", "new": "        log_j = np.log(x) + np.log1p(-x)\n        x = np.divide(1, 1 + np.exp(-x))", "expect": "sigmoid"},
    {"id": "minus-one-to-one-jacobian", "file": _R, "old": "        (2.0 * (x - xmin) / (xmax - xmin)) - 1,\n        np.log(2) - np.log(xmax - xmin),", "new": "        (2.0 * (x - xmin) / (xmax - xmin)) - 1,\n        np.log(2) + np.log(xmax - xmin),", "expect": "rescale_minus_one_to_one"},
    {"id": "inverse-zero-to-one-not-inverse", "file": _R, "old": "    return (xmax - xmin) * x + xmin, np.log(xmax - xmin)", "new": "    return (xmax - xmin) * x - xmin, np.log(xmax - xmin)", "expect": "simplifies to x"},
    {"id": "bounds-jacobian-missing-factor", "file": _RS, "old": "        log_j = -np.log(self.bounds[n][1] - self.bounds[n][0]) + np.log(\n            self._rescale_factor[n]\n        )", "new": "        log_j = -np.log(self.bounds[n][1] - self.bounds[n][0]) - np.log(\n            self._rescale_factor[n]\n        )", "expect": "negatives of each other"},
    {"id": "powerlaw-jacobian-exponent", "file": _GW, "old": "            + (self._power - 1) * np.log(d)\n", "new": "            + self._power * np.log(d)\n", "expect": "PowerLawConverter.to_uniform_parameter"},
    {"id": "anglepair-jacobian-power", "file": _AN, "old": "        log_j += 2 * np.log(r) + np.log(np.sin(x[self.parameters[1]]))", "new": "        log_j += np.log(r) + np.log(np.sin(x[self.parameters[1]]))", "expect": "AnglePair._az_zen"},
    {"id": "anglepair-ra-dec-wrong-trig", "file": _AN, "old": "        log_j += 2 * np.log(r) + np.log(np.cos(x[self.parameters[1]]))", "new": "        log_j += 2 * np.log(r) + np.log(np.sin(x[self.parameters[1]]))", "expect": "AnglePair._ra_dec"},
    {"id": "angle-inverse-adds", "file": _AN, "old": "        log_j -= np.log(x[self.parameters[1]])\n", "new": "        log_j += np.log(x[self.parameters[1]])\n", "expect": "Angle inverse"},
    {"id": "scale-jacobian-sign", "file": _RS, "old": "            log_j -= np.log(np.abs(self.scale[p]))", "new": "            log_j += np.log(np.abs(self.scale[p]))", "expect": "ScaleAndShift.reparameterise"},
    {"id": "inverse-not-reversed", "file": _RS, "old": "        for p, pp in zip(\n            reversed(self.parameters), reversed(self.prime_parameters)\n        ):", "new": "        for p, pp in zip(self.parameters, self.prime_parameters):", "expect": "reversed order"},
    {"id": "inverse-steps-misordered", "file": _RS, "edits": [(_RS, "            if self.has_pre_rescaling:\n                x[p], lj = self.pre_rescaling_inv(x[p])\n                log_j += lj\n        return x, x_prime, log_j", "        return x, x_prime, log_j"), (_RS, "            if self.has_post_rescaling:\n                x[p], lj = self.post_rescaling_inv(x_prime[pp])\n                log_j += lj\n            else:\n                x[p] = x_prime[pp]\n", "            if self.has_post_rescaling:\n                x[p], lj = self.post_rescaling_inv(x_prime[pp])\n                log_j += lj\n            else:\n                x[p] = x_prime[pp]\n            if self.has_pre_rescaling:\n                x[p], lj = self.pre_rescaling_inv(x[p])\n                log_j += lj\n")], "expect": "reverse order under the same guards"},
    {"id": "combined-same-order-both-ways", "file": "nessai/reparameterisations/combined.py", "old": "        if self.reverse_order:\n            return self.order\n        else:\n            return reversed(self.order)", "new": "        if self.reverse_order:\n            return reversed(self.order)\n        else:\n            return self.order", "expect": "from-prime order is the reverse"},
    {"id": "prime-prior-re-enabled", "file": _RS, "edits": [(_RS, "        self.configure_pre_rescaling(pre_rescaling)\n        self.configure_post_rescaling(post_rescaling)\n\n        if offset:", "        if offset:"), (_RS, "        if prior == \"uniform\":\n            self.prior = \"uniform\"\n            self.has_prime_prior = True", "        self.configure_pre_rescaling(pre_rescaling)\n        self.configure_post_rescaling(post_rescaling)\n\n        if prior == \"uniform\":\n            self.prior = \"uniform\"\n            self.has_prime_prior = True")], "expect": "never switched (back) on"},
    {"id": "non-sampling-not-copied", "file": "nessai/proposal/flowproposal.py", "old": "        for p in config.livepoints.non_sampling_parameters:\n            x[p] = x_prime[p]\n", "new": "", "expect": "inverse_rescale copies every non-sampling field"},
    {"id": "reset-forgets-shift", "file": _RS, "old": "            if self.estimate_shift:\n                self.shift[p] = 0.0\n", "new": "", "expect": "restored by reset()"},
    {"id": "prime-bounds-stale", "file": _RS, "old": "            logger.debug(f\"New bounds: {self.bounds}\")\n            self.update_prime_prior_bounds()", "new": "            logger.debug(f\"New bounds: {self.bounds}\")", "expect": "prime-space prior bounds are recomputed"},
]
