"""C17 - INS level thresholds honour min_samples / min_remove / max_samples."""

import ast

from .. import AnalysisError, tables
from ..canon import canon, cexpr, linform, single_assignments
from ..lin import lin_eq, lin_sub, lin_add, linear
from ..pm import src
from ..q import FA, call_name, compare_parts, conjuncts, guard_facts, has_fact, nfact, nfacts, walk_no_nested

TECHNIQUE = "def-use on the returned threshold, R-LIN integer identities for the three clamps with branch-order checks on the CFG, canonical form of the training floor, reviewed R-ARGMAX table for first-true idioms, R-ORDER on up-front validation; first-true idiom rule; log-space algebra for the weighted quantile (C17.5); who-may-write rule for the limits"

INS = tables.INS

# first-true idioms - np.argmax(<comparison>) (answers 0 when nothing is True) and np.flatnonzero / np.where /
# np.nonzero(<comparison>)[0] (raise IndexError when nothing is True): function -> (can the mask be all False?, why)
ARGMAX_REVIEWED = {
    "determine_threshold_quantile": (True, "the cut-off is a Harrell-Davis quantile, a convex combination of the data only up to round-off: for tied maxima it can land one ulp above max(a); the all-False answer 0 of argmax is then raised to min_remove / min_samples by the caller's clamps"),
    "determine_threshold_entropy": (False, "the CDF is divided by its last element, so cdf[-1] = 1 >= q for every q <= 1"),
    "add_new_proposal": (True, "all-False gives 0, i.e. train on every stored sample, which satisfies the min_samples floor"),
}


def first_true_sites(root):
    """[(node, kind, mask)]: kind 'argmax' (total, 0 when all False) or 'raising' (IndexError when all False)."""
    out = []
    for n in walk_no_nested(root):
        if isinstance(n, ast.Call) and call_name(n) in ("np.argmax", "numpy.argmax") and n.args and isinstance(n.args[0], ast.Compare):
            out.append((n, "argmax", n.args[0]))
        if isinstance(n, ast.Call) and isinstance(n.func, ast.Attribute) and n.func.attr == "argmax" and not n.args and isinstance(n.func.value, ast.Compare):
            out.append((n, "argmax", n.func.value))  # (mask).argmax()
        if isinstance(n, ast.Subscript) and isinstance(n.slice, ast.Constant) and n.slice.value == 0:
            v = n.value
            if isinstance(v, ast.Subscript) and isinstance(v.slice, ast.Constant) and v.slice.value == 0:
                v = v.value  # np.where(mask)[0][0]
            if isinstance(v, ast.Call) and (call_name(v) or "").split(".")[-1] in ("flatnonzero", "where", "nonzero", "argwhere") and v.args and isinstance(v.args[0], ast.Compare):
                out.append((n, "raising", v.args[0]))
    return out


def run(ctx):
    prog = ctx.prog
    f = ctx.fn(INS + ".determine_log_likelihood_threshold")
    fa = FA(f)
    sp = f.params()[1]

    # ---- C17.1 threshold is a live sample's likelihood ------------------
    rets = [(nid, fa.stmt(nid)) for nid in fa.find(lambda s: isinstance(s, ast.Return))]
    from ..pat import match_stmt as _ms
    th = []
    TH = N = None
    pats_ = (f"{sp}[$$n]['logL'].copy()", f"{sp}['logL'][$$n].copy()", f"{sp}[$$n]['logL']", f"{sp}['logL'][$$n]")
    for pat_ in pats_:
        for nid in fa.find(lambda s_: _ms("$$th = " + pat_, s_) is not None):
            b_ = _ms("$$th = " + pat_, fa.stmt(nid))
            if nid in th:
                continue
            th.append(nid)
            TH, N = src(b_["th"]), src(b_["n"])
    if not th:
        # no local for the threshold: the sample's likelihood is returned directly
        from ..pat import match_expr as _mx
        for nid, r_ in rets:
            for pat_ in pats_:
                b_ = _mx(pat_, r_.value) if r_.value is not None else None
                if b_ is not None and nid not in th:
                    th.append(nid)
                    TH, N = src(r_.value), src(b_["n"])
    ctx.ob("R-SIB", "C17.1", f, "the threshold is the log-likelihood of the n-th of the samples it was given", len(th) == 1, "")
    ctx.require(len(th) == 1, "determine_log_likelihood_threshold: `<threshold> = samples[<n>]['logL']` not found")
    REN = {N: "n", TH: "threshold"}
    n_normal = 0
    for nid, r in rets:
        if src(r.value) == TH:
            n_normal += 1
            ctx.ob("R-SIB", "C17.1", f, "normal return hands back that threshold", fa.dominates(th[0], nid), "")
        else:
            facts = [(canon(e), t) for e, t in guard_facts(fa, nid)]
            ok = (f"{N} == 0", True) in facts and (cexpr("self.min_remove < 1"), True) in facts
            ctx.ob("R-SIB", "C17.1", f, "the only other return is the documented `min_remove < 1 and nothing to remove` early exit", ok, f"`{src(r)}` under {facts}", node=r)
    ctx.require(n_normal == 1, "expected exactly one `return threshold`")
    # n comes from the chosen method
    calls = {call_name(c): nid for nid, c in fa.find_expr(lambda e: isinstance(e, ast.Call) and (call_name(e) or "").startswith("self.determine_threshold_"))}
    # ... or selected into a local first and called once (`fn = self.determine_threshold_x; n = fn(samples, ...)`)
    for nid, a_ in fa.find_expr(lambda e: isinstance(e, ast.Attribute) and isinstance(e.ctx, ast.Load) and e.attr.startswith("determine_threshold_") and src(e.value) == "self"):
        calls.setdefault(src(a_), nid)
    ctx.ob("R-SIB", "C17.1", f, "n is produced by the selected threshold method on the same samples", set(calls) == {"self.determine_threshold_quantile", "self.determine_threshold_entropy"}, f"{sorted(calls)}")
    for m in ("determine_threshold_quantile", "determine_threshold_entropy"):
        g = ctx.fn(f"{INS}.{m}")
        rr = [n for n in walk_no_nested(g.node) if isinstance(n, ast.Return)]
        ctx.ob("R-SIB", "C17.1", g, "threshold method returns an integer index", bool(rr) and all(_ms("return int($k)", r_) is not None for r_ in rr), f"`{src(rr[0]) if rr else None}`")
    ctx.floor("C17.1", 6)

    # ---- C17.2 clamps ---------------------------------------------------------
    # The function is compared, path by path, with a reference implementation of the documented clamp semantics: both
    # are reduced to canonical path signatures (atomic guard literals with linear comparisons moved to one side,
    # short-circuit conditions expanded, locals substituted, helper calls already inlined by the program model) and the
    # two sets must coincide.  The number chosen by the threshold method is the symbol N0 on both sides.
    import copy as _copy
    from ..summ import signatures as _sigs

    class _Abs(ast.NodeTransformer):
        def visit_Call(self, n_):
            self.generic_visit(n_)
            if "determine_threshold_" in src(n_.func) or src(n_.func) in _dispatch_names:
                return ast.Name(id="N0", ctx=ast.Load())
            return n_

        def visit_Name(self, n_):
            return ast.Name(id="samples", ctx=n_.ctx) if n_.id == sp else n_

    # a dispatch through a local (`fn = self.determine_threshold_x; n = fn(samples, **kw)`) is the method call as well
    _dispatch_names = {s_.targets[0].id for s_ in walk_no_nested(f.node) if isinstance(s_, ast.Assign) and len(s_.targets) == 1 and isinstance(s_.targets[0], ast.Name) and isinstance(s_.value, ast.Attribute) and "determine_threshold_" in s_.value.attr}
    _ab = lambda e_: _Abs().visit(_copy.deepcopy(e_)) if e_ is not None else None
    _is_dispatch = lambda t_: "method" in t_ or any(d_ in t_ for d_ in _dispatch_names)
    REF = (
        "def ref(self, samples):\n"
        "    n = N0\n"
        "    if n == 0:\n"
        "        if self.min_remove < 1:\n"
        "            return 0\n"
        "        else:\n"
        "            n = 1\n"
        "    if (samples.size - n) < self.min_samples:\n"
        "        n = max(0, samples.size - self.min_samples)\n"
        "    elif n < self.min_remove:\n"
        "        n = self.min_remove\n"
        "    if self.draw_constant and self.max_samples and ((samples.size - n) + self.nlive) > self.max_samples:\n"
        "        n = samples.size - self.max_samples + self.nlive\n"
        "    return samples[n]['logL']\n"
    )
    ref_sigs = {s_ for s_ in _sigs(ast.parse(REF).body[0], canon) if s_[3] == "return"}
    try:
        code_sigs = {s_ for s_ in _sigs(f.node, canon, abstract=_ab, drop=_is_dispatch) if s_[3] == "return"}
    except ValueError as e_:
        raise AnalysisError(f"determine_log_likelihood_threshold: {e_} (ANALYSIS-INCOMPLETE)")

    def _show(s_):
        return " and ".join(sorted(s_[0])) + f"  =>  {s_[2]}"

    for s_ in sorted(ref_sigs, key=_show):
        ctx.ob("R-SIB", "C17.2", f, "clamp semantics (zero-fix, then min_samples else min_remove, then the max_samples cap, then samples[n]['logL']): " + _show(s_)[:230], s_ in code_sigs, "this case of the documented behaviour has no matching path in the code")
    extra_ = sorted(code_sigs - ref_sigs, key=_show)
    ctx.ob("R-SIB", "C17.2", f, "the code has no path outside the documented clamp semantics", not extra_, "; ".join(_show(s_)[:200] for s_ in extra_[:3]))
    ctx.floor("C17.2", 20)

    # ---- C17.3 training floor ----------------------------------------------------
    g = ctx.fn(INS + ".add_new_proposal")
    from ..pat import find_stmt as _fs
    # read off the two slices with single-assignment locals inlined: the start index may or may not live in a local
    from ..pat import match_expr as _mx2

    START = "min(argmax(self.training_samples.samples['logL'] >= self.log_likelihood_threshold), self.training_samples.samples.size - self.min_samples)"
    inl_g = single_assignments(g.node)
    s_st = [b_["v"] for n_, b_ in _fs("self.current_training_samples = $v", g.node)]
    q_st = [b_["v"] for n_, b_ in _fs("self.current_training_log_q = $v", g.node)]
    # the second operand is clamped at 0: with fewer than min_samples stored (n_initial < min_samples) an unclamped
    # size - min_samples is negative and the slice keeps only the last min_samples - size samples (found on the pinned tree,
    # repaired by a fix: commit)
    START0 = START.replace("self.training_samples.samples.size - self.min_samples)", "max(0, self.training_samples.samples.size - self.min_samples))")
    STARTS = tuple(x_ for s_ in (START0,) for x_ in (s_, s_.replace("self.training_samples.samples.size", "len(self.training_samples.samples)")))
    oks_ = len(s_st) == 1 and any(_mx2(f"self.training_samples.samples[{S_}:].copy()", s_st[0], inline=inl_g) is not None for S_ in STARTS)
    okq_ = len(q_st) == 1 and any(_mx2(f"self.training_samples.log_q[{S_}:, :].copy()", q_st[0], inline=inl_g) is not None for S_ in STARTS)
    ctx.ob("R-SIB", "C17.3", g, "training starts at min(first sample at/above the threshold, max(0, size - min_samples)): at least min_samples are used, all of them when fewer are stored", oks_, f"`{src(s_st[0])[:120] if s_st else None}`")
    ctx.ob("R-SIB", "C17.3", g, "training samples and their density rows are the same tail slice [n_train:]", oks_ and okq_, f"`{src(q_st[0])[:120] if q_st else None}`")
    tr = [c for c in walk_no_nested(g.node) if isinstance(c, ast.Call) and call_name(c) == "self.proposal.train"]
    ctx.ob("R-SIB", "C17.3", g, "the proposal is trained on exactly that slice", len(tr) == 1 and src(tr[0].args[0]) == "self.current_training_samples", "")
    # the limits are the caller's for the whole run: min_samples / min_remove / max_samples are assigned once, in the
    # constructor, from the arguments of the same name (a later store - "clamp it for the first level" - changes every
    # later threshold and training set)
    n_lim = 0
    for f_ in prog.all_functions:
        for s_ in walk_no_nested(f_.node):
            tg_ = s_.targets if isinstance(s_, ast.Assign) else ([s_.target] if isinstance(s_, (ast.AugAssign, ast.AnnAssign)) else [])
            for t_ in tg_:
                if isinstance(t_, ast.Attribute) and t_.attr in ("min_samples", "min_remove", "max_samples") and f_.cls is not None and prog.cls(INS) in prog.mro(f_.cls):
                    n_lim += 1
                    v_ = getattr(s_, "value", None)
                    ctx.ob("R-WRITERS", "C17.3", f_, f"`{t_.attr}` is assigned only by the constructor, from the argument of that name", f_.name == "__init__" and isinstance(s_, ast.Assign) and v_ is not None and src(v_) == t_.attr, f"`{src(s_)[:70]}`", node=s_)
    ctx.require(n_lim >= 3, f"only {n_lim} stores of min_samples / min_remove / max_samples found in the importance sampler")
    ctx.floor("C17.3", 6)

    # ---- C17.4 first-true idioms ---------------------------------------------------
    ins = prog.cls(INS)
    seen = set()
    for m in ins.methods.values():
        fa_m = None
        for n, kind, mask in first_true_sites(m.node):
            seen.add(m.name)
            rv = ARGMAX_REVIEWED.get(m.name)
            if rv is None:
                ctx.ob("R-ARGMAX", "C17.4", m, "a first-true search has a reviewed all-False story", False, f"unreviewed site `{src(n)[:80]}`: argmax of an all-False mask is 0 and [0] of an empty index array raises", node=n)
                continue
            can_be_empty, why = rv
            ok = True
            if kind == "raising" and can_be_empty:
                # acceptable only when the empty case is handled: inside try/except IndexError or under an .any() guard
                fa_m = fa_m or FA(m)
                handled = any(isinstance(t, ast.Try) and any(h.type is None or "IndexError" in src(h.type) or "Exception" in src(h.type) for h in t.handlers) and any(x is n for b in t.body for x in ast.walk(b)) for t in ast.walk(m.node))
                guarded = any(".any()" in src(e) or "any(" in src(e) for e, t in guard_facts(fa_m, fa_m.cfg.id_of(n)) if t)
                ok = handled or guarded
                why = f"`{src(n)[:60]}` raises IndexError when no element satisfies the predicate, and here that can happen: {why}"
            ctx.ob("R-ARGMAX", "C17.4", m, "a first-true search has a reviewed all-False story (argmax answers 0; an index of an empty selection raises and must be guarded)", ok, why, node=n)
    ctx.require(seen >= set(ARGMAX_REVIEWED), f"reviewed first-true sites vanished: {set(ARGMAX_REVIEWED) - seen}")
    # supports of the reviewed reasons
    ge = ctx.fn(INS + ".determine_threshold_entropy")
    norm = _fs("$$c /= $$c[-1]", ge.node)
    from ..pat import find_expr as _fe

    am = _fe("argmax($$c >= q)", ge.node, norm[0][1] if norm else None)
    ctx.ob("R-ARGMAX", "C17.4", ge, "entropy method: the CDF is normalised by its last element before the first-true search", len(norm) == 1 and len(am) == 1 and norm[0][0].lineno < am[0][0].lineno, "")
    gq = ctx.fn(INS + ".determine_threshold_quantile")
    # the searched array and the array the quantile is taken of are the same likelihood column (through a local or not)
    col_ = f"{gq.params()[1]}['logL']"
    aq = _fs(f"$$a = {col_}", gq.node)
    okq = False
    for A_ in ([src(aq[0][1]["a"])] if len(aq) == 1 else []) + [col_]:
        cq_ = _fs(f"$$c = weighted_quantile({A_}, q, log_weights=$$w, values_sorted=True)", gq.node)
        if len(cq_) == 1:
            C_ = src(cq_[0][1]["c"])
            okq = okq or any(len(_fe(pat_.replace("$$a", A_).replace("$$c", C_), gq.node)) == 1 for pat_ in ("argmax($$a >= $$c)", "flatnonzero($$a >= $$c)[0]", "where($$a >= $$c)[0][0]", "nonzero($$a >= $$c)[0][0]"))
    ctx.ob("R-ARGMAX", "C17.4", gq, "quantile method: the cut-off is a weighted quantile of the same likelihood array that is searched", okq, "")
    ctx.floor("C17.4", 5)

    # ---- C17.5 the weighted quantile is taken in log space --------------------------------------------------------
    # the quantile method hands weighted_quantile un-normalised log-weights (logW, or logW + logL with
    # include_likelihood=True, whose offset is the likelihood's): every exponential inside it must be of a shift-invariant
    # quantity (weights normalised in log space first), or the weights under- / overflow, the quantile is NaN and no
    # threshold can be chosen.  Decided with the log-space algebra of sa/lsa.py (shared with C16.3).
    from .C16 import ess_rule as _ess17

    _ess17(ctx, "C17.5", only=("weighted_quantile",))
    ctx.floor("C17.5", 2)

    # ---- C17.5 up-front validation ---------------------------------------------------
    cc = ctx.fn(INS + ".check_configuration")
    tests = [canon(n.test) for n in walk_no_nested(cc.node) if isinstance(n, ast.If) and any(isinstance(x, ast.Raise) for x in n.body)]
    ctx.ob("R-ORDER", "C17.5", cc, "min_samples > nlive and min_remove > nlive are rejected", cexpr("self.min_samples > self.nlive") in tests and cexpr("self.min_remove > self.nlive") in tests, f"{tests}")
    ini = ctx.fn(INS + ".__init__")
    ia = FA(ini)
    cl = ia.find_calls("self.check_configuration")
    ctx.ob("R-ORDER", "C17.5", ini, "check_configuration() runs on every path through the constructor", len(cl) == 1 and ia.on_every_normal_path(cl[0][0]), "")
    ctx.floor("C17.5", 2)
    ctx.assumptions += ["range of the cap index for all parameter combinations and the numerics of the Harrell-Davis quantile are not decided"]


def _name(s):
    return ast.parse(s, mode="eval").body


def _lin_cmp(test, left, op, right):
    p = compare_parts(test)
    if not p:
        return False
    l, o, r = p
    flip = {"Lt": "Gt", "Gt": "Lt", "LtE": "GtE", "GtE": "LtE"}
    if o == op and lin_eq(linform(l), left) and lin_eq(linform(r), right):
        return True
    if flip.get(o) == op and lin_eq(linform(r), left) and lin_eq(linform(l), right):
        return True
    # move everything to one side: l - r  (op) 0
    d = lin_sub(linform(l), linform(r))
    w = lin_sub(left, right)
    return (o == op and lin_eq(d, w)) or (flip.get(o) == op and lin_eq(lin_sub(linform(r), linform(l)), w))


CLAIM = {
    "text": "Decides, for every live set and weight vector, the integer-arithmetic clauses of the threshold choice: the returned threshold is samples[n]['logL'] of the samples it was given on every path except the documented min_remove<1 early exit; n comes from the selected method as an int; the three clamps are exact linear identities (kept = size - max(0, size - min_samples) = min_samples under the guard size - n < min_samples; elif n < min_remove then n := min_remove; cap (size - n') + nlive = max_samples under draw_constant and max_samples and (size - n) + nlive > max_samples) applied in that order before the threshold is read; the next proposal is trained on the tail slice starting at min(first index at/above the threshold, size - min_samples) with the density rows sliced identically; every np.argmax(<predicate>) first-true idiom in the sampler is in a reviewed table whose stated reason is itself checked (CDF divided by its last element; cut-off is a quantile of the searched array); min_samples/min_remove > nlive are rejected in the constructor. First-true idioms are np.argmax(<comparison>) (answers 0) and flatnonzero / where / nonzero(<comparison>)[0] (raises on an empty selection); the reviewed table records whether the mask can be all False, and a raising idiom must then be guarded. min_samples / min_remove / max_samples are assigned once, in the constructor, from the arguments of that name; the training slice starts at max(0, size - min_samples) (C17.3; the unclamped start was a defect, repaired).",
    "note": "Does not decide the index range of the cap for all parameter combinations, nor monotonicity / range of the Harrell-Davis weighted quantile (numeric).",
}

_F = "nessai/samplers/importancesampler.py"
MUTANTS = [
    {"id": "training-start-unclamped", "file": _F, "old": "            max(0, self.training_samples.samples.size - self.min_samples),\n        )", "new": "            self.training_samples.samples.size - self.min_samples,\n        )", "expect": "training starts at"},
    {"id": "threshold-off-by-one", "file": _F, "old": '        threshold = samples[n]["logL"].copy()', "new": '        threshold = samples[n - 1]["logL"].copy()', "expect": "n-th of the samples"},
    {"id": "threshold-interpolated", "file": _F, "old": '        threshold = samples[n]["logL"].copy()', "new": '        threshold = 0.5 * (samples[n]["logL"] + samples[n - 1]["logL"])', "expect": "n-th of the samples"},
    {"id": "min-samples-clamp-off-by-one", "file": _F, "old": "            n = max(0, samples.size - self.min_samples)\n", "new": "            n = max(0, samples.size - self.min_samples + 1)\n", "expect": "clamp semantics"},
    {"id": "min-samples-guard-le", "file": _F, "old": "        if (samples.size - n) < self.min_samples:", "new": "        if (samples.size - n) < self.min_samples - 1:", "expect": "clamp semantics"},
    {"id": "min-remove-not-elif", "file": _F, "old": "        elif n < self.min_remove:\n", "new": "        if n < self.min_remove:\n", "expect": "clamp semantics"},
    {"id": "min-remove-clamp-value", "file": _F, "old": "            n = self.min_remove\n", "new": "            n = self.min_remove - 1\n", "expect": "clamp semantics"},
    {"id": "cap-ignores-nlive", "file": _F, "old": "            n = samples.size - self.max_samples + self.nlive\n", "new": "            n = samples.size - self.max_samples\n", "expect": "clamp semantics"},
    {"id": "cap-before-min-samples", "file": _F, "edits": [(_F, "        if (\n            self.draw_constant\n            and self.max_samples\n            and ((samples.size - n) + self.nlive) > self.max_samples\n        ):\n            n = samples.size - self.max_samples + self.nlive\n            logger.warning(\n                \"Next level would have more than max samples, \"\n                f\"removing {n} samples\"\n            )\n\n", ""), (_F, "        if (samples.size - n) < self.min_samples:\n            logger.warning(\n                f\"Cannot remove {n} from", "        if (\n            self.draw_constant\n            and self.max_samples\n            and ((samples.size - n) + self.nlive) > self.max_samples\n        ):\n            n = samples.size - self.max_samples + self.nlive\n        if (samples.size - n) < self.min_samples:\n            logger.warning(\n                f\"Cannot remove {n} from")], "expect": "clamp semantics"},
    {"id": "training-floor-dropped", "file": _F, "old": "            max(0, self.training_samples.samples.size - self.min_samples),\n        )", "new": "            self.training_samples.samples.size,\n        )", "expect": "training starts at"},
    {"id": "training-logq-misaligned", "file": _F, "old": "        self.current_training_log_q = self.training_samples.log_q[\n            n_train:, :\n        ].copy()", "new": "        self.current_training_log_q = self.training_samples.log_q[\n            n_train + 1 :, :\n        ].copy()", "expect": "same tail slice"},
    {"id": "quantile-first-true-raises", "file": _F, "old": "        n = np.argmax(a >= cutoff)", "new": "        n = np.where(a >= cutoff)[0][0]", "expect": "first-true search"},
    {"id": "new-argmax-site", "file": _F, "old": "        n_removed = self.training_samples.remove_samples()\n", "new": "        n_removed = self.training_samples.remove_samples()\n        n_chk = np.argmax(self.live_points_unit[\"logL\"] >= self.log_likelihood_threshold)\n", "expect": "first-true search"},
    {"id": "cdf-not-normalised", "file": _F, "old": "        cdf /= cdf[-1]\n", "new": "        cdf /= cdf.sum()\n", "expect": "CDF is normalised"},
    {"id": "validation-dropped", "file": _F, "old": "        if self.min_samples > self.nlive:\n            raise ValueError(\"`min_samples` must be less than `nlive`\")\n", "new": "", "expect": "are rejected"},
]
