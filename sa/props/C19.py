"""C19 - saved results read back equal to the in-memory results (writer-side necessary conditions)."""

import ast

from .. import tables
from ..pat import find_expr, find_stmt, match_expr, match_stmt
from ..canon import canon, single_assignments
from ..pm import src
from ..q import FA, call_name, guard_facts, walk_no_nested
from .C20_reg import _chain_ends_in_raise, compared_literals

TECHNIQUE = "R-REG on the extension dispatch, CFG totality of the JSON encoder, R-WRITERS on HDF5 leaf stores (every leaf passes the None-encoder), R-SIB key parity of the two result dictionaries, type table of structured-array results vs. name-preserving conversion; guard-implied attribute rule on the encoder; literal-set dispatch reading, must-pass conversion and HDF5 name-safety guard"

IO = "nessai.utils.io"
FS = tables.FS

# result keys that hold structured (named-field) arrays, by the expression that produces them (reviewed)
STRUCTURED_RESULT_KEYS = {
    tables.NS: {"nested_samples": "np.array(self.nested_samples)"},
    tables.INS: {"samples": "self.final_samples", "training_samples": "self.model.from_unit_hypercube(self.training_samples.samples)"},
    FS: {"posterior_samples": "self.posterior_samples", "initial_posterior_samples": "self.initial_posterior_samples"},
}


def _cfg_path(f, call):
    """second argument of save_to_json(d, filename) - positional or keyword - read through a single-assignment local"""
    e = call.args[1] if len(call.args) > 1 else next((k.value for k in call.keywords if k.arg == "filename"), None)
    if isinstance(e, ast.Name):
        e = single_assignments(f.node).get(e.id, e)
    return e


def run(ctx):
    prog = ctx.prog
    sr = ctx.fn(FS + ".save_results")
    sa = FA(sr)

    # ---- C19.1 extension dispatch ------------------------------------------
    lits = compared_literals(sr.node, "extension")
    ctx.ob("R-REG", "C19.1", sr, "extensions json / hdf5 / h5 are handled and anything else is rejected", {"json", "hdf5", "h5"} <= lits and _chain_ends_in_raise(sr, "extension"), f"{sorted(lits)}")
    js = sa.find_calls("save_to_json")
    h5 = sa.find_calls("save_dict_to_hdf5")
    ctx.require(len(js) == 1 and len(h5) == 1, "save_results: expected one JSON and one HDF5 writer call")
    jf = [(src(e), t) for e, t in guard_facts(sa, js[0][0])]
    hf = [(src(e), t) for e, t in guard_facts(sa, h5[0][0])]
    ctx.ob("R-REG", "C19.1", sr, "json extension goes to the JSON writer, hdf5/h5 to the HDF5 writer, both with the same dictionary and the final filename",
           _ext_values(guard_facts(sa, js[0][0])) == {"json"} and _ext_values(guard_facts(sa, h5[0][0])) == {"hdf5", "h5"} and len(js[0][1].args) == 2 and [src(a) for a in js[0][1].args] == [src(a) for a in h5[0][1].args] and src(js[0][1].args[1]) == "filename" and bool(find_stmt(f"{src(js[0][1].args[0])} = self.ns.get_result_dictionary()", sr.node)), f"json under {jf}; hdf5 under {hf}")
    # three filename/extension cases
    ext = find_stmt("$$e = os.path.splitext(filename)[1].lstrip('.')", sr.node)
    ctx.ob("R-REG", "C19.1", sr, "extension handling: inferred from the filename, explicit, or appended when the filename has none (and rejected when neither is given)",
           len(ext) == 1 and len(find_stmt("filename = '.'.join([filename, extension])", sr.node)) == 1 and len(find_stmt("extension = $$e", sr.node, ext[0][1] if ext else None)) == 1 and any(isinstance(n, ast.Raise) for n in walk_no_nested(sr.node)), "")
    for m in ("run_standard_sampler", "run_importance_nested_sampler"):
        f = ctx.fn(f"{FS}.{m}")
        calls = [c for c in walk_no_nested(f.node) if isinstance(c, ast.Call) and call_name(c) == "self.save_results"]
        ok = len(calls) >= 1 and all(any(k.arg == "extension" and src(k.value) == "self.result_extension" for k in c.keywords) for c in calls)
        ctx.ob("R-REG", "C19.1", f, "the run passes the configured result_extension to save_results", ok, f"{[src(c)[:80] for c in calls]}")
    # ... and when saving was asked for, the file is written on every path: the results in memory (posterior samples are
    # re-drawn on every run(), a finished run included) are what the file must hold
    for m in ("run_standard_sampler", "run_importance_nested_sampler"):
        f = ctx.fn(f"{FS}.{m}")
        fa_r = FA(f)
        calls_r = [n_ for n_, c_ in fa_r.find_calls("self.save_results")]
        ifs_r = [n_ for n_ in fa_r.nodes() if n_.kind == "if" and canon(n_.ast.test) == "save"]
        ok_r = bool(calls_r) and len(ifs_r) >= 1
        for n_ in ifs_r:
            first_ = n_.ast.body[0] if n_.ast.body else None
            nid_ = fa_r.cfg.id_of(first_) if first_ is not None else None
            ok_r = ok_r and nid_ is not None and (nid_ in calls_r or fa_r.cfg.every_exit_path_passes(nid_, calls_r))
        ctx.ob("R-ORDER", "C19.1", f, "when `save` is set the result file is written on every path (never skipped because an older file exists)", ok_r, f"{len(calls_r)} save_results call(s) under {len(ifs_r)} `if save:`")
    ctx.floor("C19.1", 7)

    # ---- C19.2 JSON encoder totality ---------------------------------------------
    enc = ctx.fn(IO + ":NessaiJSONEncoder.default")
    ea = FA(enc)
    rets = [ea.stmt(r) for r in ea.find(lambda s: isinstance(s, ast.Return))]
    ctx.ob("R-ORDER", "C19.2", enc, "every path through the encoder returns a value", ea.cfg.every_exit_path_passes(ea.cfg.entry, ea.find(lambda s: isinstance(s, ast.Return))) and all(r.value is not None for r in rets), f"{len(rets)} returns")
    o = enc.params()[1]
    from ..canon import canon as _canon
    want = {
        f"isinstance({o}, integer)": f"int({o})",
        f"isinstance({o}, floating)": f"float({o})",
        f"isinstance({o}, ndarray)": f"{o}.tolist()",
        f"not is_jsonable({o})": f"str({o})",
    }
    got = {}
    for r in rets:
        facts = [_canon(e) if t else f"not {_canon(e)}" for e, t in guard_facts(ea, ea.cfg.id_of(r))]
        facts = [f for f in facts if not f.startswith("not isinstance")]
        if facts:
            got[facts[-1]] = src(r.value)
    for cond, val in want.items():
        ctx.ob("R-SIB", "C19.2", enc, f"encoder: {cond} -> {val}", got.get(cond) == val, f"got {got.get(cond)}")
    # no branch of the encoder can raise for a value the fallback would have turned into a string: an attribute of
    # the object is read only where the branch guard implies it exists (the numpy methods under their isinstance
    # tests), under a hasattr / getattr-with-default, or inside a try
    implied_ = {"tolist": ("ndarray", "generic", "integer", "floating", "number"), "item": ("ndarray", "generic", "integer", "floating", "number"), "total_seconds": ("timedelta",), "isoformat": ("datetime", "date")}
    n_attr_ = 0
    for n_ in walk_no_nested(enc.node):
        if not (isinstance(n_, ast.Attribute) and isinstance(n_.value, ast.Name) and n_.value.id == o and isinstance(n_.ctx, ast.Load)):
            continue
        n_attr_ += 1
        facts_ = guard_facts(ea, ea.cfg.id_of(n_))
        def implies_(e_, attr_=n_.attr):
            """the (true) test e_ guarantees that `obj.<attr_>` exists"""
            if isinstance(e_, ast.BoolOp):
                return all(implies_(v_) for v_ in e_.values) if isinstance(e_.op, ast.Or) else any(implies_(v_) for v_ in e_.values)
            if not (isinstance(e_, ast.Call) and e_.args and src(e_.args[0]) == o):
                return False
            fn_ = (call_name(e_) or "").split(".")[-1]
            if fn_ == "hasattr":
                return len(e_.args) == 2 and isinstance(e_.args[1], ast.Constant) and e_.args[1].value == attr_
            if fn_ == "isinstance" and len(e_.args) == 2:
                tys_ = [src(y_).split(".")[-1] for y_ in (e_.args[1].elts if isinstance(e_.args[1], ast.Tuple) else [e_.args[1]])]
                if attr_ in implied_:
                    return all(t_ in implied_[attr_] for t_ in tys_)
                if attr_ in ("__module__", "__qualname__", "__name__"):
                    return all(t_ in ("type", "FunctionType", "BuiltinFunctionType", "MethodType", "LambdaType") for t_ in tys_)
                return False
            if fn_ in ("isfunction", "isclass", "isbuiltin", "isroutine", "ismethod"):
                return attr_ in ("__module__", "__qualname__", "__name__")
            return False

        ok_ = any(t_ and implies_(e_) for e_, t_ in facts_)
        ok_ = ok_ or any(isinstance(t_, ast.Try) and any(x_ is n_ for b_ in t_.body for x_ in ast.walk(b_)) and any(h_.type is None or any(k_ in src(h_.type) for k_ in ("AttributeError", "Exception")) for h_ in t_.handlers) for t_ in ast.walk(enc.node))
        ctx.ob("R-ORDER", "C19.2", enc, "the encoder reads an attribute of the object only where its guard implies the attribute exists (else the fallback to str is never reached: json.dump raises mid-file)", ok_, f"`{src(n_)}` under {[(src(e_)[:40], t_) for e_, t_ in facts_]}", node=n_)
    ctx.require(n_attr_ >= 1, "no attribute read on the encoded object found (obj.tolist() expected)")
    ij = ctx.fn(IO + ":is_jsonable")
    ctx.ob("R-SIB", "C19.2", ij, "is_jsonable tries json.dumps and treats TypeError / OverflowError as not serialisable", len(find_expr("json.dumps($x)", ij.node)) == 1 and any(isinstance(n, ast.ExceptHandler) and "TypeError" in src(n.type) for n in ast.walk(ij.node)), "")
    sj = ctx.fn(IO + ":save_to_json")
    sja = FA(sj)
    dk = find_stmt("$$k = dict(indent=4, cls=NessaiJSONEncoder)", sj.node)
    upd = find_expr("$k.update(kwargs)", sj.node)
    dump = find_expr("json.dump(d, $fp, **$k)", sj.node)
    ok_enc = len(dk) == 1 and len(upd) == 1 and len(dump) == 1 and src(dump[0][1]["k"]) == src(dk[0][1]["k"])
    if not ok_enc:
        # other spellings: json.dump(d, fp, indent=4, cls=NessaiJSONEncoder, **kwargs), or **{"cls": NessaiJSONEncoder, ..., **kwargs}
        inl_sj = single_assignments(sj.node)
        for c_ in walk_no_nested(sj.node):
            if isinstance(c_, ast.Call) and call_name(c_) == "json.dump" and c_.args and src(c_.args[0]) == "d":
                direct = any(k_.arg == "cls" and src(k_.value) == "NessaiJSONEncoder" for k_ in c_.keywords)
                spread = False
                for k_ in c_.keywords:
                    if k_.arg is None:
                        v_ = inl_sj.get(k_.value.id) if isinstance(k_.value, ast.Name) and k_.value.id in inl_sj else k_.value
                        if isinstance(v_, ast.Dict) and any(isinstance(a_, ast.Constant) and a_.value == "cls" and src(b_) == "NessaiJSONEncoder" for a_, b_ in zip(v_.keys, v_.values)):
                            spread = True
                        if isinstance(v_, ast.Call) and call_name(v_) == "dict" and any(a_.arg == "cls" and src(a_.value) == "NessaiJSONEncoder" for a_ in v_.keywords):
                            spread = True
                ok_enc = ok_enc or direct or spread
    ctx.ob("R-ORDER", "C19.2", sj, "save_to_json always installs NessaiJSONEncoder (caller kwargs may extend it) and dumps the given dictionary", ok_enc, "")
    sk = ctx.fn(FS + ".save_kwargs")
    call = [c for c in walk_no_nested(sk.node) if isinstance(c, ast.Call) and call_name(c) == "save_to_json"]
    ctx.ob("R-ORDER", "C19.2", sk, "config.json is written through save_to_json without replacing the encoder (classes, pools, callbacks fall back to str)", len(call) == 1 and not [k for k in call[0].keywords if k.arg == "cls"] and _cfg_path(sk, call[0]) is not None and match_expr("os.path.join(self.output, 'config.json')", _cfg_path(sk, call[0])) is not None, "")
    # json options that make the writer partial (or lossy) on the dictionaries the package writes: sort_keys=True raises
    # TypeError on a dictionary with keys of mixed type (`reparameterisations={"x": .., None: ..}` in config.json) and
    # leaves a truncated file; skipkeys=True drops entries; allow_nan=False raises on NaN / inf (legal evidence values)
    _safe_opt = {"sort_keys": False, "skipkeys": False, "allow_nan": True}
    n_json = 0
    for f_ in prog.all_functions:
        for c_ in walk_no_nested(f_.node):
            if not isinstance(c_, ast.Call):
                continue
            nm_ = call_name(c_) or ""
            is_writer = nm_ in ("save_to_json", "json.dump", "json.dumps") or nm_.endswith(".save_to_json")
            is_opts = f_ is sj and (nm_ == "dict" or nm_.endswith(".update"))
            if not (is_writer or is_opts):
                continue
            if is_writer:
                n_json += 1
            kws_ = [(k_.arg, k_.value) for k_ in c_.keywords if k_.arg is not None]
            for k_ in c_.keywords:
                if k_.arg is None and isinstance(k_.value, ast.Dict):
                    kws_ += [(a_.value, b_) for a_, b_ in zip(k_.value.keys, k_.value.values) if isinstance(a_, ast.Constant)]
            badk = [(a_, src(b_)) for a_, b_ in kws_ if a_ in _safe_opt and not (isinstance(b_, ast.Constant) and b_.value is _safe_opt[a_])]
            if is_writer or badk:
                ctx.ob("R-ORDER", "C19.2", f_, "a JSON writer is not given an option that makes it fail or drop entries on legal dictionaries (sort_keys / skipkeys / allow_nan=False)", not badk, f"`{src(c_)[:70]}`" + (f": {badk}" if badk else ""), node=c_)
    for d_ in walk_no_nested(sj.node):
        if isinstance(d_, ast.Dict):
            badk = [(a_.value, src(b_)) for a_, b_ in zip(d_.keys, d_.values) if isinstance(a_, ast.Constant) and a_.value in _safe_opt and not (isinstance(b_, ast.Constant) and b_.value is _safe_opt[a_.value])]
            if badk:
                ctx.ob("R-ORDER", "C19.2", sj, "a JSON writer is not given an option that makes it fail or drop entries on legal dictionaries (sort_keys / skipkeys / allow_nan=False)", False, f"`{src(d_)[:70]}`: {badk}", node=d_)
    ctx.require(n_json >= 3, f"only {n_json} JSON writer calls found in the package")
    ctx.floor("C19.2", 8)

    # ---- C19.3 HDF5 leaves ----------------------------------------------------------
    ad = ctx.fn(IO + ":add_dict_to_hdf5_file")
    stores = [(f, n) for f in prog.functions_in(IO) for n in walk_no_nested(f.node) if isinstance(n, ast.Subscript) and isinstance(n.ctx, ast.Store) and isinstance(n.value, ast.Name) and n.value.id in ("hdf5_file", "f", "h5file")]
    ctx.ob("R-WRITERS", "C19.3", ad, "the only store into the HDF5 file object is in add_dict_to_hdf5_file", len(stores) == 1 and stores[0][0] is ad, f"{[(f.short, src(n)) for f, n in stores]}")
    # the group a nested dictionary is written under is the *current* group + key + '/': the prefix used for the leaves
    # ($$P) must be the prefix extended on descent, whether the walk recurses or keeps an explicit stack
    leaf = find_stmt("hdf5_file[$$P + $$k] = encode_for_hdf5($$v)", ad.node)
    rec, loop = [], []
    if len(leaf) == 1:
        bP = {"P": leaf[0][1]["P"]}
        rec = find_expr("add_dict_to_hdf5_file(hdf5_file, $$P + $$k + '/', $$v)", ad.node, bP) + find_expr("$$S.append(($$P + $$k + '/', $$v))", ad.node, bP)
        descents = [c_ for c_ in walk_no_nested(ad.node) if isinstance(c_, ast.Call) and ((call_name(c_) or "") == "add_dict_to_hdf5_file" or (isinstance(c_.func, ast.Attribute) and c_.func.attr in ("append", "extend", "insert", "appendleft") and c_.args and isinstance(c_.args[0], ast.Tuple)))]
        # dictionaries descend, everything else is a leaf - read from the guards of the two statements (either arm order)
        ada = FA(ad)
        vname = src(leaf[0][1]["v"])
        from ..q import holds as _holds
        leaf_ok = _holds(guard_facts(ada, ada.cfg.id_of(leaf[0][0])), f"isinstance({vname}, dict)", False)
        desc_ok = len(descents) == 1 and _holds(guard_facts(ada, ada.cfg.id_of(descents[0])), f"isinstance({vname}, dict)", True)
        okh5 = len(rec) == 1 and len(descents) == 1 and leaf_ok and desc_ok
    else:
        okh5 = False
    ctx.ob("R-WRITERS", "C19.3", ad, "every leaf value passes through encode_for_hdf5 and nested dictionaries recurse with the extended path", okh5, "")
    eh = ctx.fn(IO + ":encode_for_hdf5")
    eha = FA(eh)
    none_branch = find_stmt("if value is None:\n    $$o = '__none__'\nelse:\n    $$o = value", eh.node)
    from ..summ import summarise as _summ19
    from ..q import conjuncts as _conj19

    ehp = [pa_ for pa_ in _summ19(eh.node) if pa_.end == "return"]
    ok_none = len(ehp) == 2
    for pa_ in ehp:
        is_none = {True: None}
        for t_, tr_ in pa_.guards:
            for e_, v_ in _conj19(t_, tr_):
                if isinstance(e_, ast.Compare) and len(e_.ops) == 1 and isinstance(e_.ops[0], ast.Is) and src(e_.left) == "value" and isinstance(e_.comparators[0], ast.Constant) and e_.comparators[0].value is None:
                    is_none = v_
        ok_none = ok_none and ((is_none is True and isinstance(pa_.ret, ast.Constant) and pa_.ret.value == "__none__") or (is_none is False and src(pa_.ret) == "value"))
    ctx.ob("R-SIB", "C19.3", eh, "None is encoded as the '__none__' marker and every other value is passed through unchanged", ok_none, f"{[(src(pa_.ret)) for pa_ in ehp]}")
    sh = ctx.fn(IO + ":save_dict_to_hdf5")
    ctx.ob("R-ORDER", "C19.3", sh, "the HDF5 writer opens the file for writing and stores the whole dictionary from the root", len(find_expr("h5py.File(filename, 'w')", sh.node)) == 1 and len(find_expr("add_dict_to_hdf5_file($f, '/', d)", sh.node)) == 1, "")
    ctx.floor("C19.3", 4)

    # ---- C19.4 key parity ---------------------------------------------------------------
    base = ctx.fn(tables.BASE + ".get_result_dictionary")
    bkeys = _dict_keys(base.node)
    ctx.ob("R-SIB", "C19.4", base, "base result dictionary carries seed, timings, evaluation count and the history", {"seed", "sampling_time", "total_likelihood_evaluations", "likelihood_evaluation_time", "history"} <= bkeys, f"{sorted(bkeys)}")
    need = {tables.NS: {"log_evidence", "log_evidence_error", "log_posterior_weights", "nested_samples", "insertion_indices"}, tables.INS: {"log_evidence", "log_evidence_error", "log_posterior_weights", "samples", "history"}}
    for cq, keys in need.items():
        f = ctx.fn(cq + ".get_result_dictionary")
        ks = _dict_keys(f.node)
        sup = find_stmt("$$d = super().get_result_dictionary()", f.node)
        rets = [n for n in walk_no_nested(f.node) if isinstance(n, ast.Return)]
        ctx.ob("R-SIB", "C19.4", f, f"result dictionary extends the base one and provides {sorted(keys)}", len(sup) == 1 and keys <= (ks | bkeys) and len(rets) == 1 and src(rets[0].value) == src(sup[0][1]["d"]), f"keys {sorted(ks)} (+ the base keys)")
    gd = find_stmt("$$d = self.ns.get_result_dictionary()", sr.node)
    ps = find_stmt("$$d['posterior_samples'] = self.posterior_samples", sr.node, gd[0][1] if gd else None)
    ctx.ob("R-SIB", "C19.4", sr, "save_results writes the sampler's result dictionary plus the posterior samples", len(ps) == 1 and len(gd) == 1, "")
    ctx.floor("C19.4", 4)

    # ---- C19.5 structured arrays keep their field names in JSON -----------------------------
    conv_hits = list(find_stmt("$$d[$k] = live_points_to_dict($$d[$k])", sr.node, gd[0][1] if gd else None))
    # ... or converted from the very expression that was stored under that key (`d[k] = v` ... `d[k] = live_points_to_dict(v)`)
    for n_, b_ in find_stmt("$$d[$k] = live_points_to_dict($v)", sr.node, gd[0][1] if gd else None):
        if any(n_ is m_ for m_, _ in conv_hits) or not isinstance(b_["k"], ast.Constant):
            continue
        if any(m_ is not n_ and isinstance(b2_["k"], ast.Constant) and b2_["k"].value == b_["k"].value and src(b2_["v"]) == src(b_["v"]) for m_, b2_ in find_stmt("$$d[$k] = $v", sr.node, gd[0][1] if gd else None)):
            conv_hits.append((n_, b_))
    conv = {b["k"].value for n, b in conv_hits if isinstance(b["k"], ast.Constant)}
    conv_nodes = [n for n, b in conv_hits]
    # every path to the JSON writer passes the conversion (in the JSON arm, or hoisted above the dispatch) ...
    conv_ids = [sa.cfg.id_of(n) for n in conv_nodes]
    conv_guarded = bool(conv_ids) and any(sa.dominates(c_, js[0][0]) for c_ in conv_ids)
    # ... and a conversion that can reach the HDF5 writer is taken only for names HDF5 can hold: that writer builds dataset
    # paths as `path + key`, so a dictionary keyed by the model's parameter names splits every name containing "/" into
    # nested groups (the structured array it replaces has no such restriction)
    h5 = sa.find_calls("save_dict_to_hdf5")
    ctx.require(len(h5) == 1, "save_results: the HDF5 writer call was not found")
    inl_sr = single_assignments(sr.node)

    def _mentions_separator(e_, depth=0):
        for x_ in ast.walk(e_):
            if isinstance(x_, ast.Constant) and x_.value == "/":
                return True
            if isinstance(x_, ast.Name) and x_.id in inl_sr and depth < 3 and _mentions_separator(inl_sr[x_.id], depth + 1):
                return True
        return False

    for c_ in conv_ids:
        if sa.cfg.can_follow(c_, h5[0][0]):
            facts_ = guard_facts(sa, c_)
            ctx.ob("R-TYPE", "C19.5", sr, "a field-name-keyed dictionary reaches the HDF5 writer only under a test that the names contain no path separator", any(t_ and _mentions_separator(e_) for e_, t_ in facts_), f"`{sa.text(c_)[:80]}` can be followed by save_dict_to_hdf5; guards {[src(e_)[:40] for e_, _t in facts_]}")
    for owner, keys in STRUCTURED_RESULT_KEYS.items():
        fn_ = sr if owner == FS else ctx.fn(owner + ".get_result_dictionary")
        for k, producer in keys.items():
            # the table entry must still describe the code
            st = [n for n, b in find_stmt(f"$$d['{k}'] = $v", fn_.node)]
            ctx.require(len(st) >= 1, f"structured-result table entry {owner}:{k} no longer matches the code")
            ctx.ob("R-TYPE", "C19.5", fn_, f"structured array result `{k}` is converted with its field names (live_points_to_dict) before the JSON writer sees it", k in conv and conv_guarded,
                   "the JSON encoder turns an ndarray into obj.tolist(): a structured array becomes a list of plain tuples and the field names are not in the file" if k not in conv else "", node=st[0])
    ctx.floor("C19.5", 4)
    ctx.assumptions += ["json / h5py library behaviour for native values; value-level equality after reading back needs a reader and data and is not decided", "table of result keys that hold structured arrays (sa/props/C19.py) was confirmed by reading"]


def _dict_keys(fnode):
    """Constant string keys a function puts into dictionaries: `d["k"] = v`, `d = {"k": v, ...}`, `d = dict(k=v, ...)`
    (`d.update(k=v)` is already `d["k"] = v` in the program model)."""
    out = set()
    for n in walk_no_nested(fnode):
        if isinstance(n, ast.Subscript) and isinstance(n.ctx, ast.Store) and isinstance(n.slice, ast.Constant) and isinstance(n.slice.value, str):
            out.add(n.slice.value)
        elif isinstance(n, ast.Dict):
            out |= {k.value for k in n.keys if isinstance(k, ast.Constant) and isinstance(k.value, str)}
        elif isinstance(n, ast.Call) and isinstance(n.func, ast.Name) and n.func.id == "dict":
            out |= {k.arg for k in n.keywords if k.arg}
    return out


_KNOWN_EXT = {"json", "hdf5", "h5"}


def _ext_values(facts):
    """The values `extension` can have where a statement runs, out of the three the dispatch knows: equalities /
    memberships that hold restrict the set, those that do not hold remove their literals."""
    vals = set(_KNOWN_EXT)
    for e, t in facts:
        if not (isinstance(e, ast.Compare) and len(e.ops) == 1 and src(e.left) == "extension"):
            continue
        op, r = e.ops[0], e.comparators[0]
        lits = None
        if isinstance(op, (ast.Eq, ast.NotEq)) and isinstance(r, ast.Constant):
            lits, positive = {r.value}, isinstance(op, ast.Eq) == t
        elif isinstance(op, (ast.In, ast.NotIn)) and isinstance(r, (ast.List, ast.Tuple, ast.Set)) and all(isinstance(x, ast.Constant) for x in r.elts):
            lits, positive = {x.value for x in r.elts}, isinstance(op, ast.In) == t
        if lits is None:
            continue
        vals = (vals & lits) if positive else (vals - lits)
    return vals


CLAIM = {
    "text": "Decides writer-side necessary conditions: the extension dispatch handles json/hdf5/h5, rejects others, and covers the three filename/extension cases; every path of the JSON encoder returns a JSON-native value for numpy integers, floats and arrays and falls back to str for anything not serialisable, and save_to_json always installs it (so config.json is writable for classes, pools, callbacks); the only store into an HDF5 file object passes through the None-encoder and nested dictionaries recurse; both samplers' result dictionaries extend the base one and provide the keys the property names, and save_results adds the posterior samples; structured-array results must be converted with their field names before JSON encoding - true for posterior_samples only: the other structured results lose their field names in result.json (recorded known finding). The JSON encoder reads an attribute of the encoded object only where its branch guard implies the attribute exists (no branch can raise for a value the str() fallback would have handled). When saving is requested the result file is written on every path (C19.1). No JSON writer call of the package is given an option that makes it fail or drop entries on legal dictionaries (sort_keys=True with keys of mixed type, skipkeys, allow_nan=False) (C19.2).",
    "note": "Only the writer is in the repository: equality after reading back needs a reader and data and is not decided; h5py's handling of ragged lists / lists containing None is outside the analysed program.",
}

_IOF = "nessai/utils/io.py"
_FSF = "nessai/flowsampler.py"
MUTANTS = [
    {"id": "h5-extension-unhandled", "file": _FSF, "old": '        elif extension in ["hdf5", "h5"]:', "new": '        elif extension in ["hdf5"]:', "expect": "extensions json / hdf5 / h5"},
    {"id": "unknown-extension-silently-ignored", "file": _FSF, "old": '        else:\n            raise RuntimeError(f"Unknown file extension: {extension}")', "new": "        else:\n            pass", "expect": "extensions json / hdf5 / h5"},
    {"id": "extension-not-appended", "file": _FSF, "old": '        elif ext == "":\n            filename = ".".join([filename, extension])\n', "new": "", "expect": "extension handling"},
    {"id": "encoder-float-dropped", "file": _IOF, "old": "        elif isinstance(obj, np.floating):\n            return float(obj)\n", "new": "", "expect": "floating"},
    {"id": "encoder-no-fallback", "file": _IOF, "old": "        elif not is_jsonable(obj):\n            return str(obj)\n        else:\n            return super().default(obj)", "new": "        else:\n            return super().default(obj)", "expect": "not is_jsonable"},
    {"id": "config-sorted-keys", "file": "nessai/flowsampler.py", "old": "        save_to_json(d, os.path.join(self.output, \"config.json\"))", "new": "        save_to_json(d, os.path.join(self.output, \"config.json\"), sort_keys=True)", "expect": "C19.2"},
    {"id": "encoder-path-without-return", "file": _IOF, "old": "        elif isinstance(obj, np.ndarray):\n            return obj.tolist()", "new": "        elif isinstance(obj, np.ndarray):\n            obj = obj.tolist()", "expect": "C19.2"},
    {"id": "json-writer-without-encoder", "file": _IOF, "old": "        indent=4,\n        cls=NessaiJSONEncoder,\n    )", "new": "        indent=4,\n    )", "expect": "always installs NessaiJSONEncoder"},
    {"id": "hdf5-leaf-unencoded", "file": _IOF, "old": "            hdf5_file[path + key] = encode_for_hdf5(value)", "new": "            hdf5_file[path + key] = value", "expect": "every leaf value passes through encode_for_hdf5"},
    {"id": "hdf5-none-dropped", "file": _IOF, "old": '    if value is None:\n        output = "__none__"\n    else:\n        output = value', "new": "    output = value", "expect": "None is encoded"},
    {"id": "hdf5-nested-flattened", "file": _IOF, "old": '            add_dict_to_hdf5_file(hdf5_file, path + key + "/", value)', "new": '            add_dict_to_hdf5_file(hdf5_file, path, value)', "expect": "nested dictionaries recurse"},
    {"id": "ns-result-without-weights", "file": "nessai/samplers/nestedsampler.py", "old": '        d["log_posterior_weights"] = self.state.log_posterior_weights\n', "new": "", "expect": "result dictionary extends the base one"},
    {"id": "ins-result-not-extending-base", "file": "nessai/samplers/importancesampler.py", "old": "        d = super().get_result_dictionary()\n        d[\"history\"] = self.history\n        d[\"training_samples\"]", "new": "        d = dict()\n        d[\"history\"] = self.history\n        d[\"training_samples\"]", "expect": "result dictionary extends the base one"},
    {"id": "posterior-samples-not-converted", "file": _FSF, "old": '            d["posterior_samples"] = live_points_to_dict(\n                d["posterior_samples"]\n            )\n', "new": "", "expect": "`posterior_samples`"},
]
