"""C13 - a termination signal at any instant leaves a consistent, resumable state.

The quantifier ("before every source line of the iteration") is a set of
statement boundaries - a static object.  R-INT enumerates them on the CFG of
the iteration, with an abstract effect vector over the counters the property
names, and reports every maximal inconsistent window.
"""

import ast

import networkx as nx

from .. import AnalysisError, tables
from ..callgraph import callgraph
from ..canon import canon
from ..pm import src, dotted
from ..q import FA, call_name, guard_facts, is_self_attr, walk_no_nested, const
from ..resolve import resolver

TECHNIQUE = "R-INT: forward dataflow of an effect vector (integrated, recorded, iteration, live-slot replaced, index recorded) over every statement boundary of the iteration's CFG and call tree, exhaustive; R-ORDER/R-DOM on the signal handler and the INS checkpoint guard; value-preservation rule over every __getstate__"

EFFECTS = ["I", "A", "T", "S", "R", "X"]
EFFECT_NAMES = {
    "I": "state.increment (point integrated)",
    "A": "nested_samples.append (point recorded)",
    "T": "iteration += 1",
    "S": "live block shifted (slot 0 dropped, neighbour duplicated)",
    "R": "replacement stored in the live array",
    "X": "insertion_indices.append",
}


def _non_periodic(call):
    """the call leaves `periodic` at its False default (positional slot 0 / keyword); force= and
    save_existing= do not matter on the non-periodic path of either sampler"""
    if call.args:
        return len(call.args) == 1 and isinstance(call.args[0], ast.Constant) and call.args[0].value is False
    for k in call.keywords:
        if k.arg is None:
            return False
        if k.arg == "periodic" and not (isinstance(k.value, ast.Constant) and k.value.value is False):
            return False
    return True


def run(ctx):
    prog = ctx.prog
    res = resolver(prog)
    g, _ = callgraph(prog)

    # ------------------------------------------------------------------
    # C13.1 handler shape
    init = ctx.fn(tables.FS + ".__init__")
    ia = FA(init)
    regs = ia.find_calls("signal.signal")
    sigs = {}
    for nid, c in regs:
        if len(c.args) == 2:
            sigs[src(c.args[0])] = (src(c.args[1]), nid)
    for s in ("signal.SIGTERM", "signal.SIGINT", "signal.SIGALRM"):
        ok = s in sigs and sigs[s][0] == "self.safe_exit"
        facts = [src(e) for e, t in guard_facts(ia, sigs[s][1])] if s in sigs else []
        ctx.ob("R-ORDER", "C13.1", init, f"{s} is routed to self.safe_exit when signal handling is enabled", ok and "signal_handling" in facts, f"registered: {sigs.get(s)} under {facts}")
    se = ctx.fn(tables.FS + ".safe_exit")
    sa = FA(se)
    tr = sa.find_calls("self.terminate_run")
    ex = sa.find_calls("sys.exit")
    okh = len(tr) == 1 and len(ex) == 1 and sa.dominates(tr[0][0], ex[0][0]) and sa.on_every_normal_path(ex[0][0]) is not None
    ctx.ob("R-ORDER", "C13.1", se, "handler: terminate_run() then sys.exit(self.exit_code) on every path", okh and len(ex[0][1].args) == 1 and src(ex[0][1].args[0]) == "self.exit_code" and sa.cfg.every_exit_path_passes(sa.cfg.entry, [ex[0][0]]), f"`{src(ex[0][1]) if ex else None}`")
    tf = ctx.fn(tables.FS + ".terminate_run")
    ta = FA(tf)
    cp = ta.find_calls("self.ns.close_pool")
    ck = ta.find_calls("self.ns.checkpoint")
    ctx.ob("R-ORDER", "C13.1", tf, "terminate_run: close the pool, then a forced (non-periodic) checkpoint of the live sampler object", len(cp) == 1 and len(ck) == 1 and ta.dominates(cp[0][0], ck[0][0]) and _non_periodic(ck[0][1]) and ta.on_every_normal_path(ck[0][0]), f"`{src(ck[0][1]) if ck else None}`")
    # the forced checkpoint the handler asks for is always written: in BaseNestedSampler.checkpoint every `return` before
    # the pickle is on the periodic path (interval not reached); a forced call that can return early leaves whatever file
    # an earlier - possibly mid-iteration - periodic checkpoint wrote
    bck = ctx.fn(tables.BASE + ".checkpoint")
    bca = FA(bck)
    dumps_ = [n_ for n_, c_ in bca.find_expr(lambda e_: isinstance(e_, ast.Call) and (call_name(e_) or "").split(".")[-1] in ("safe_file_dump",) or (isinstance(e_, ast.Call) and src(e_.func) == "self.checkpoint_callback"))]
    ctx.require(len(dumps_) >= 1, "BaseNestedSampler.checkpoint: no pickling call found")
    n_ret = 0
    for rn_ in bca.find(lambda s_: isinstance(s_, ast.Return)):
        if any(bca.dominates(d_, rn_) for d_ in dumps_):
            continue
        n_ret += 1
        facts_ = guard_facts(bca, rn_)
        periodic_only = any((canon(e_) == "periodic" and t_ is True) or (canon(e_) == "not periodic" and t_ is False) for e_, t_ in facts_)
        ctx.ob("R-ORDER", "C13.1", bck, "a checkpoint call returns without pickling only on the periodic path (a forced, signal-time checkpoint is always written)", periodic_only, f"`return` under {[(src(e_)[:40], t_) for e_, t_ in facts_]}", node=bca.stmt(rn_))
    ctx.require(n_ret >= 1, "BaseNestedSampler.checkpoint: the interval test of the periodic path (an early return) was not found")
    ctx.floor("C13.1", 6)

    # ------------------------------------------------------------------
    # C13.2 INS refuses mid-iteration checkpoints
    ic = ctx.fn(tables.INS + ".checkpoint")
    ica = FA(ic)
    sup = ica.find_expr(lambda e: isinstance(e, ast.Call) and isinstance(e.func, ast.Attribute) and e.func.attr == "checkpoint" and isinstance(e.func.value, ast.Call) and call_name(e.func.value) == "super")
    ctx.require(len(sup) == 1, "ImportanceNestedSampler.checkpoint: super().checkpoint call not found")
    facts = guard_facts(ica, sup[0][0])
    refuses = any((src(e) == "periodic is False" and t is False) or (src(e) == "periodic" and t is True) or (src(e) == "not periodic" and t is False) for e, t in facts)
    ctx.ob("R-DOM", "C13.2", ic, "the checkpoint is written only when periodic is not False (signal-time checkpoints are refused)", refuses, f"guards {[(src(e), t) for e, t in facts]}")
    params = ic.node.args
    defaults = dict(zip([a.arg for a in params.args][-len(params.defaults):], params.defaults)) if params.defaults else {}
    ctx.ob("R-DOM", "C13.2", ic, "default of `periodic` is False, so the handler's argument-less checkpoint() is refused", "periodic" in defaults and const(defaults["periodic"], False), f"default {src(defaults.get('periodic'))}")
    # no file operation on the refusing path
    first_ret = [n for n in ica.nodes() if n.kind == "stmt" and isinstance(n.ast, ast.Return)]
    fs_before = [c for _, c in ica.find_expr(lambda e: isinstance(e, ast.Call) and (call_name(e) or "") in ("safe_file_dump", "open", "pickle.dump", "shutil.move"))]
    ctx.ob("R-DOM", "C13.2", ic, "the refusing path performs no file operation (last iteration-boundary checkpoint left intact)", not fs_before and len(first_ret) >= 1, "")
    il = ctx.fn(tables.INS + ".nested_sampling_loop")
    ila = FA(il)
    cks = ila.find_calls("self.checkpoint")
    incs = ila.find(lambda s: isinstance(s, ast.AugAssign) and is_self_attr(s.target, "iteration"))
    hist = ila.find_calls("self.update_history")
    okb = len(cks) == 1 and len(incs) == 1 and len(hist) == 1 and ila.dominates(incs[0], cks[0][0]) and ila.dominates(hist[0][0], incs[0]) and any(k.arg == "periodic" and const(k.value, True) for k in cks[0][1].keywords)
    ctx.ob("R-ORDER", "C13.2", il, "INS periodic checkpoint sits at the iteration boundary (after update_history and iteration += 1)", okb, "")
    fin = ctx.fn(tables.INS + ".finalise")
    fa_ = FA(fin)
    fcks = fa_.find_calls("self.checkpoint")
    fl = fa_.find(lambda s: isinstance(s, ast.Assign) and any(is_self_attr(t, "finalised") for t in s.targets) and const(s.value, True))
    ctx.ob("R-ORDER", "C13.2", fin, "INS final checkpoint is written after finalised = True", len(fcks) == 1 and len(fl) == 1 and fa_.dominates(fl[0], fcks[0][0]), "")
    ctx.floor("C13.2", 5)

    # ------------------------------------------------------------------
    # C13.3 interruption windows of the standard sampler
    cs = ctx.fn(tables.NS + ".consume_sample")
    ilp = ctx.fn(tables.NS + ".insert_live_point")
    ca = FA(cs)
    cfg = ca.cfg

    def effect_of(node):
        """effects (list) produced by executing CFG node `node` of consume_sample."""
        out = []

        def post(n_):  # evaluation order: arguments before the call that receives them
            for ch_ in ast.iter_child_nodes(n_):
                if not isinstance(ch_, (ast.FunctionDef, ast.Lambda, ast.ClassDef)):
                    yield from post(ch_)
            yield n_

        for part in cfg.own_exprs(node.id):
            for n in post(part):
                if isinstance(n, ast.Call):
                    d = call_name(n) or ""
                    if d == "self.state.increment":
                        out.append("I")
                    elif d == "self.nested_samples.append":
                        out.append("A")
                    elif d == "self.insertion_indices.append":
                        out.append("X")
                    elif d == "self.insert_live_point":
                        out += ["S", "R"]
        st = node.ast
        if node.kind == "stmt" and isinstance(st, ast.AugAssign) and is_self_attr(st.target, "iteration"):
            out.append("T")
        # direct writes of the live array inside consume_sample itself
        if node.kind == "stmt":
            for n in walk_no_nested(st):
                if isinstance(n, ast.Subscript) and isinstance(n.ctx, ast.Store) and is_self_attr(n.value, "live_points"):
                    out.append("R")
        return out

    # forward dataflow: set of vectors at the entry of each node
    zero = tuple(0 for _ in EFFECTS)
    IN = {n: set() for n in cfg.nodes}
    IN[cfg.entry] = {zero}
    work = [cfg.entry]
    eff = {n.id: effect_of(n) for n in cfg.nodes.values() if n.kind in ("stmt", "if", "while", "for", "with")}
    while work:
        n = work.pop()
        outs = set()
        for v in IN[n]:
            v2 = list(v)
            for e in eff.get(n, []):
                v2[EFFECTS.index(e)] = min(v2[EFFECTS.index(e)] + 1, 2)
            outs.add(tuple(v2))
        for s in cfg.g.successors(n):
            if not outs <= IN[s]:
                IN[s] |= outs
                work.append(s)

    def consistent(v):
        return len(set(v)) == 1

    # boundaries: before every statement node (+ inside calls); count them
    stmt_nodes = [n for n in cfg.statement_nodes() if IN[n.id]]
    n_boundaries = 0
    incons = []
    for n in stmt_nodes:
        n_boundaries += 1
        if any(not consistent(v) for v in IN[n.id]):
            incons.append(n)
    # boundaries inside callees of statements that execute within a window
    inner_callees = {}
    for n in incons:
        for part in cfg.own_exprs(n.id):
            for c in walk_no_nested(part):
                if isinstance(c, ast.Call):
                    for h in res.resolve_call(cs, c, count=False) or []:
                        inner_callees.setdefault(h.qual, n)
    # yield_sample is entered through next(self.yield_sample(..)): generator body runs inside the window
    for n in incons:
        for part in cfg.own_exprs(n.id):
            for c in walk_no_nested(part):
                if isinstance(c, ast.Call) and call_name(c) == "self.yield_sample":
                    inner_callees.setdefault(prog.fn(tables.NS + ".yield_sample").qual, n)
    reach = set()
    for q in inner_callees:
        if q in g:
            reach |= {q} | nx.descendants(g, q)
    inner_stmt_boundaries = 0
    for q in reach:
        f = prog.functions.get(q)
        if f is not None:
            inner_stmt_boundaries += sum(1 for x in walk_no_nested(f.node) if isinstance(x, ast.stmt))
    ctx.extra["exhaustive"] = True
    ctx.extra["statement_boundaries_in_consume_sample"] = n_boundaries
    ctx.extra["inconsistent_boundaries_in_consume_sample"] = len(incons)
    ctx.extra["functions_executing_inside_the_window"] = len(reach)
    ctx.extra["statement_boundaries_inside_the_window_call_tree"] = inner_stmt_boundaries

    # exit state: exactly one of each effect on every path
    exit_vs = IN[cfg.exit]
    ctx.ob("R-INT", "C13.3", cs, "consume_sample returns with integrated = recorded = iteration = replaced = index-recorded = 1 on every path", exit_vs == {tuple(1 for _ in EFFECTS)}, f"exit vectors {sorted(exit_vs)} over {EFFECTS}")
    ctx.ob("R-INT", "C13.3", cs, "no effect executes twice in one iteration", all(max(v) <= 1 for n in cfg.nodes for v in IN[n]), "")

    # deferral idioms that would close every window
    deferred = handler_defers(ctx, prog, g)
    masked = signals_masked(ca, incons)
    # maximal windows = connected components of inconsistent boundaries
    sub = cfg.g.subgraph([n.id for n in incons]).to_undirected()
    import networkx

    comps = list(networkx.connected_components(_with_branches(cfg, incons)))
    windows = []
    for comp in comps:
        nodes = [cfg.nodes[i] for i in comp if cfg.nodes[i].kind != "branch" and cfg.nodes[i] in incons]
        if not nodes:
            continue
        # order of effects executed inside / at the edges of the window
        order = effect_order(cfg, eff, comp)
        windows.append((order, nodes))
    ctx.extra["windows"] = [{"effects_in_order": o, "boundaries": len(ns)} for o, ns in windows]
    if not windows:
        ctx.ob("R-INT", "C13.3", cs, "every statement boundary of the iteration is consistent", True, "no inconsistent boundary")
    for order, nodes in windows:
        desc = " -> ".join(EFFECT_NAMES[e].split(" (")[0] for e in order)
        ok = deferred or masked
        first = min(nodes, key=lambda n: getattr(n.ast, "lineno", 0))
        ctx.ob("R-INT", "C13.3", cs, f"no interruption window in which a signal-time checkpoint pickles an inconsistent state: {desc}", ok,
               f"{len(nodes)} statement boundaries of consume_sample (plus {inner_stmt_boundaries} in the {len(reach)} functions that run inside it: proposal draw / population / training) see counters {order} partially applied; the handler pickles the live object synchronously (no deferral flag, no signal mask). Resume re-reads live_points[0], which is already recorded and integrated.",
               node=first.ast)
    # inside insert_live_point: between the block shift and the store the live set holds a duplicated point
    ila_ = FA(ilp)
    stores = ila_.assigns_to_attr("live_points")
    ctx.ob("R-INT", "C13.3", ilp, "live-array replacement is two stores (shift, then slot): both inside the same window as the counters", len(stores) == 2 and any("S" in eff.get(n.id, []) for n in incons + stmt_nodes), f"{[src(s)[:50] for _, s in stores]}")
    ctx.floor("C13.3", 3)

    # ------------------------------------------------------------------
    # C13.4 checkpoint call sites vs. windows
    ckq = prog.fn(tables.BASE + ".checkpoint").qual
    for n in stmt_nodes:
        for part in cfg.own_exprs(n.id):
            for c in walk_no_nested(part):
                if not isinstance(c, ast.Call):
                    continue
                targets = res.resolve_call(cs, c, count=False) or []
                reaches = any(h.qual == ckq or (h.qual in g and ckq in nx.descendants(g, h.qual)) for h in targets)
                if reaches:
                    inside = any(not consistent(v) for v in IN[n.id])
                    ctx.ob("R-INT", "C13.4", cs, f"call `{src(c.func)}` that can write a periodic checkpoint sits at a consistent boundary", not inside or deferred,
                           f"`{src(c)}` reaches BaseNestedSampler.checkpoint (checkpoint_on_training in train_proposal) and executes with counters {sorted(IN[n.id])} over {EFFECTS}", node=c)
    lp = ctx.fn(tables.NS + ".nested_sampling_loop")
    la = FA(lp)
    loops = [n for n in la.nodes() if n.kind == "while" and "self.condition" in src(n.ast.test)]
    ctx.require(len(loops) == 1, "NestedSampler.nested_sampling_loop: main while loop not found")
    body = la.cfg.loop_body(loops[0].id)
    cons = [nid for nid, c in la.find_calls("self.consume_sample") if nid in body]
    ctx.require(len(cons) == 1, "main loop does not call consume_sample exactly once")
    n_sites = 0
    for nid, c in la.find_expr(lambda e: isinstance(e, ast.Call)):
        if nid not in body or nid == cons[0]:
            continue
        targets = res.resolve_call(lp, c, count=False) or []
        if any(h.qual == ckq or (h.qual in g and ckq in nx.descendants(g, h.qual)) for h in targets):
            n_sites += 1
            # outside consume_sample the vector is consistent iff consume_sample's exit vector is
            ctx.ob("R-INT", "C13.4", lp, f"loop-level call `{src(c.func)}` that can checkpoint runs between iterations (consistent boundary)", exit_vs == {tuple(1 for _ in EFFECTS)}, f"`{src(c)}`", node=c)
    ctx.require(n_sites >= 2, "expected check_state() and update_state() checkpoint sites in the main loop")
    ctx.floor("C13.4", 3)

    # ---- C13.5 the signal-time checkpoint pickles the state as it is -------------------------------------------------
    # whatever boundary the handler interrupts, the counts and the pool in the checkpoint are those of the live object
    # only if no __getstate__ swaps an attribute for a different value (shared with C12.1)
    from .C12 import getstate_value_rule as _gvr
    _gvr(ctx, prog, "C13.5")
    ctx.floor("C13.5", 8)
    # ---- C13.6 a resumed run does not rewind the random streams (shared with C14.2)
    from .C14 import seed_once_rule as _sor
    _sor(ctx, "C13.6")
    ctx.floor("C13.6", 1)
    ctx.assumptions += [
        "a Python-level signal handler runs between bytecodes of the main thread, i.e. at (or inside) statement boundaries; boundaries inside C extensions are not finer than the statement that calls them",
        "the resumed loop restarts at the top of consume_sample (it re-reads live_points[0])",
    ]


def _with_branches(cfg, incons):
    """Undirected graph joining inconsistent statement nodes that are adjacent
    through branch / join pseudo nodes."""
    import networkx

    bad = {n.id for n in incons}
    ug = networkx.Graph()
    ug.add_nodes_from(bad)
    for n in bad:
        stack = list(cfg.g.successors(n))
        seen = set()
        while stack:
            s = stack.pop()
            if s in seen:
                continue
            seen.add(s)
            if s in bad:
                ug.add_edge(n, s)
            elif cfg.nodes[s].kind in ("branch", "join"):
                stack.extend(cfg.g.successors(s))
    return ug


def effect_order(cfg, eff, comp):
    """Effects in the order they execute along the straight path through the window."""
    # nodes whose execution changes the vector and that border / lie in the window
    cand = set(comp)
    for n in list(comp):
        cand |= set(cfg.g.predecessors(n))
    items = []
    for n in cand:
        if n in cfg.nodes and eff.get(n):
            items.append((getattr(cfg.nodes[n].ast, "lineno", 0), eff[n]))
    items.sort()
    out = []
    for _, es in items:
        for e in es:
            if e not in out:
                out.append(e)
    return out


def handler_defers(ctx, prog, g):
    """Accepted idiom 1: the handler does not checkpoint synchronously."""
    se = prog.fn(tables.FS + ".safe_exit").qual
    ck = prog.fn(tables.BASE + ".checkpoint").qual
    reaches = se in g and ck in nx.descendants(g, se)
    return not reaches


def signals_masked(fa, incons):
    """Accepted idiom 2: the window is bracketed by pthread_sigmask(SIG_BLOCK) / (SIG_UNBLOCK)."""
    blocks = fa.find_expr(lambda e: isinstance(e, ast.Call) and (call_name(e) or "").endswith("pthread_sigmask") and e.args and "SIG_BLOCK" in src(e.args[0]))
    unblocks = fa.find_expr(lambda e: isinstance(e, ast.Call) and (call_name(e) or "").endswith("pthread_sigmask") and e.args and ("SIG_UNBLOCK" in src(e.args[0]) or "SIG_SETMASK" in src(e.args[0])))
    if not blocks or not unblocks:
        return False
    b = blocks[0][0]
    return all(fa.dominates(b, n.id) for n in incons)


CLAIM = {
    "text": "Exhaustive enumeration of the interruption points of the standard sampler's iteration: a forward dataflow over the CFG of consume_sample (with insert_live_point's two stores and the call tree that runs inside it) assigns every statement boundary the vector (integrated, recorded, iteration, shifted, replaced, index-recorded); a boundary is consistent iff all counters agree, which is what a synchronously pickling signal handler observes. Decides: handler shape (three signals -> safe_exit -> close pool -> forced checkpoint -> sys.exit(exit_code)); INS refuses non-periodic checkpoints and writes its periodic/final ones at iteration boundaries; every periodic-checkpoint call site lies at a consistent boundary; and reports every maximal inconsistent window keyed by the order of effects in it. On this tree exactly one window exists (state.increment .. insertion_indices.append) plus the checkpoint_on_training site inside it: a genuine defect recorded as known findings F5a/F5b; any other or reordered window is a fresh violation. terminate_run leaves `periodic` at its False default (force= is irrelevant on that path). The signal-time checkpoint pickles the state as it is: no __getstate__ swaps an attribute for a different value (C13.5, shared with C12.1). A checkpoint call returns without pickling only on the periodic path: the forced, signal-time checkpoint is always written (C13.1).",
    "note": "Signal delivery is modelled at statement boundaries of the main thread (Python handlers run between bytecodes; C calls are atomic w.r.t. the handler). Accepted window-closing idioms: a handler that does not reach checkpoint synchronously (deferral) or pthread_sigmask bracketing. Does not decide the validity of the resumed run's results.",
}

_NS = "nessai/samplers/nestedsampler.py"
_INS = "nessai/samplers/importancesampler.py"
_FS = "nessai/flowsampler.py"
MUTANTS = [
    {"id": "forced-checkpoint-can-be-skipped", "file": "nessai/samplers/base.py", "old": "        if not periodic:\n            if self.history:", "new": "        if not periodic:\n            if getattr(self, \"_ck_it\", None) == self.iteration:\n                return\n            if self.history:", "expect": "returns without pickling only on the periodic path"},
    {"id": "sigalrm-unhandled", "file": _FS, "old": "                signal.signal(signal.SIGALRM, self.safe_exit)\n", "new": "", "expect": "signal.SIGALRM"},
    {"id": "handler-no-exit", "file": _FS, "old": "        sys.exit(self.exit_code)\n", "new": "        return self.exit_code\n", "expect": "handler: terminate_run"},
    {"id": "handler-wrong-exit-code", "file": _FS, "old": "        sys.exit(self.exit_code)\n", "new": "        sys.exit(signum)\n", "expect": "handler: terminate_run"},
    {"id": "handler-periodic-checkpoint", "file": _FS, "old": "        self.ns.checkpoint()\n", "new": "        self.ns.checkpoint(periodic=True, force=True)\n", "expect": "terminate_run: close the pool"},
    {"id": "ins-accepts-midrun-checkpoint", "file": _INS, "old": "        if periodic is False:\n            logger.warning(\n                \"Importance Sampler cannot checkpoint mid iteration\"", "new": "        if periodic is None:\n            logger.warning(\n                \"Importance Sampler cannot checkpoint mid iteration\"", "expect": "written only when periodic is not False"},
    {"id": "ins-checkpoint-before-iteration-advance", "file": _INS, "edits": [(_INS, "            if self.checkpointing:\n                self.checkpoint(periodic=True)\n            if self.iteration >= self.max_iteration:", "            if self.iteration >= self.max_iteration:"), (_INS, "            self.update_history()\n            self.iteration += 1\n", "            self.update_history()\n            if self.checkpointing:\n                self.checkpoint(periodic=True)\n            self.iteration += 1\n")], "expect": "INS periodic checkpoint sits at the iteration boundary"},
    {"id": "ns-reordered-window", "file": _NS, "edits": [(_NS, "        self.iteration += 1\n        self.block_iteration += 1\n        count = 0\n", "        self.block_iteration += 1\n        count = 0\n"), (_NS, "        worst = self.live_points[0].copy()\n        self.logLmin = worst[\"logL\"]\n", "        worst = self.live_points[0].copy()\n        self.iteration += 1\n        self.logLmin = worst[\"logL\"]\n")], "expect": "no interruption window"},
    {"id": "ns-checkpoint-inside-window", "file": _NS, "old": "        self.block_iteration += 1\n        count = 0\n", "new": "        self.block_iteration += 1\n        count = 0\n        if self.checkpointing:\n            self.checkpoint(periodic=True)\n", "expect": "call `self.checkpoint`"},
    {"id": "ns-index-sometimes-unrecorded", "file": _NS, "old": "                self.insertion_indices.append(index)\n", "new": "                if index:\n                    self.insertion_indices.append(index)\n", "expect": "consume_sample returns with"},
]
