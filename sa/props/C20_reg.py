"""C20.3 registries (R-REG) and C20.5 validation-before-sampling (R-ORDER)."""

import ast

from .. import tables
from ..callgraph import callgraph, reachable_from
from ..canon import canon, cexpr
from ..pm import dotted, src
from ..q import FA, call_name, guard_facts, literal_tests, walk_no_nested
from ..rules import api


def dict_assigned(fi, name):
    """The string-keyed dict literal assigned to a local in fi (the registry table); `name` is only
    a hint used when several exist."""
    cands = []
    for n in walk_no_nested(fi.node):
        if isinstance(n, ast.Assign) and len(n.targets) == 1 and isinstance(n.targets[0], ast.Name):
            v = n.value
            d = None
            if isinstance(v, ast.Dict):
                d = v
            elif isinstance(v, ast.Call) and call_name(v) == "dict" and not v.args and v.keywords:
                d = ast.copy_location(ast.Dict(keys=[ast.Constant(k.arg) for k in v.keywords], values=[k.value for k in v.keywords]), v)
            if d is not None and d.keys and all(isinstance(k, ast.Constant) and isinstance(k.value, str) for k in d.keys):
                cands.append((n.targets[0].id, d))
    if not cands:
        return None
    for nm, d in cands:
        if nm == name:
            return d
    return max(cands, key=lambda c: len(c[1].keys))[1]


def _dict_assigned_by_name(fi, name):
    for n in walk_no_nested(fi.node):
        if isinstance(n, ast.Assign) and len(n.targets) == 1 and isinstance(n.targets[0], ast.Name) and n.targets[0].id == name:
            v = n.value
            if isinstance(v, ast.Dict):
                return v
            if isinstance(v, ast.Call) and call_name(v) == "dict" and not v.args:
                d = ast.Dict(keys=[ast.Constant(k.arg) for k in v.keywords], values=[k.value for k in v.keywords])
                return ast.copy_location(d, v)
    return None


def compared_literals(root, subject):
    """String literals `subject` is compared with (==, !=, in, not in) under root."""
    out = set()
    for n in ast.walk(root):
        if isinstance(n, ast.Compare) and len(n.ops) == 1 and isinstance(n.ops[0], (ast.Eq, ast.NotEq, ast.In, ast.NotIn)):
            l, r = n.left, n.comparators[0]
            for a, b in ((l, r), (r, l)):
                if src(a) == subject or (isinstance(a, ast.Call) and isinstance(a.func, ast.Attribute) and a.func.attr in ("lower", "upper", "casefold") and not a.args and src(a.func.value) == subject):
                    for c in ast.walk(b):
                        if isinstance(c, ast.Constant) and isinstance(c.value, str):
                            out.add(c.value)
    return out


def resolve_value(prog, fi, node):
    """('class', ClassInfo) / ('func', FunctionInfo) / ('ext', path, exists) / None"""
    r = prog.resolve_expr(fi.module, node) if isinstance(node, (ast.Name, ast.Attribute)) else None
    if r is None:
        return None
    if r[0] == "ext":
        ok, _ = api.resolve_path(r[1])
        return ("ext", r[1], ok)
    return r


def run(ctx):
    prog = ctx.prog
    # 1. proposal classes ------------------------------------------------
    f = ctx.fn("nessai.proposal.utils:get_flow_proposal_class")
    d = dict_assigned(f, "base_proposals")
    ctx.require(d is not None, "get_flow_proposal_class: base_proposals dict literal not found")
    fp = prog.cls(tables.FP)
    table = {c for c in tables.FIELD_TYPES[(tables.NS, "_flow_proposal")]}
    for k, v in zip(d.keys, d.values):
        r = resolve_value(prog, f, v)
        ok = isinstance(k, ast.Constant) and isinstance(k.value, str) and k.value == k.value.lower() and r is not None and r[0] == "class" and fp in prog.mro(r[1])
        ctx.ob("R-REG", "C20.3", f, f"proposal name {src(k)} maps to an in-package FlowProposal subclass (lower-case key)", ok, f"value `{src(v)}` resolves to {r[1].qual if r and r[0]=='class' else r}", node=v)
        if r and r[0] == "class":
            ctx.ob("R-REG", "C20.3", f, f"analysis table covers proposal class {r[1].name}", r[1].qual in table, "sa/tables.py FIELD_TYPES[NestedSampler._flow_proposal] must list every registered class so R-ATTR/R-SIG see it", node=v)
    lowers = [n for n in walk_no_nested(f.node) if isinstance(n, ast.Call) and isinstance(n.func, ast.Attribute) and n.func.attr == "lower"]
    ctx.ob("R-REG", "C20.3", f, "proposal name is lower-cased before the lookup", bool(lowers), "")
    raises = [n for n in walk_no_nested(f.node) if isinstance(n, ast.Raise)]
    ctx.ob("R-REG", "C20.3", f, "unknown proposal name / type is rejected (ValueError / TypeError)", len(raises) >= 2, f"{len(raises)} raise statements")

    # 2. flows -----------------------------------------------------------
    f = ctx.fn("nessai.flows.utils:get_native_flow_class")
    d = dict_assigned(f, "flows")
    ctx.require(d is not None, "get_native_flow_class: flows dict literal not found")
    bf = prog.cls("nessai.flows.base:BaseFlow")
    for k, v in zip(d.keys, d.values):
        r = resolve_value(prog, f, v)
        ok = isinstance(k, ast.Constant) and k.value == str(k.value).lower() and r is not None and r[0] == "class" and bf in prog.mro(r[1])
        ctx.ob("R-REG", "C20.3", f, f"flow type {src(k)} maps to an in-package BaseFlow subclass", ok, f"`{src(v)}` -> {r}", node=v)
        if r and r[0] == "class":
            # every registered flow implements the interface NFlow / FlowModel calls
            for meth in ("forward", "inverse", "sample", "log_prob", "base_distribution_log_prob", "forward_and_log_prob", "sample_and_log_prob"):
                m = prog.find_method(r[1], meth)
                ctx.ob("R-REG", "C20.3", r[1].qual, f"flow class {r[1].name} implements {meth} (non-abstract)", m is not None and not m.is_abstract, "", fn=m)
    ctx.ob("R-REG", "C20.3", f, "unknown flow name is rejected", any(isinstance(n, ast.Raise) for n in walk_no_nested(f.node)), "")

    # 3/4. distributions and activations ----------------------------------
    for fq, var in (("nessai.flows.utils:get_base_distribution", "distributions"), ("nessai.flows.utils:get_activation_function", "activations")):
        f = ctx.fn(fq)
        d = dict_assigned(f, var)
        ctx.require(d is not None, f"{fq}: {var} dict literal not found")
        for k, v in zip(d.keys, d.values):
            r = resolve_value(prog, f, v)
            ok = r is not None and (r[0] in ("class", "func") or (r[0] == "ext" and r[2] is not False))
            ctx.ob("R-REG", "C20.3", f, f"{var} entry {src(k)} resolves to an existing object", ok, f"`{src(v)}` -> {r[:2] if r else None}", node=v)
        ctx.ob("R-REG", "C20.3", f, f"unknown {var} name is rejected", any(isinstance(n, ast.Raise) for n in walk_no_nested(f.node)), "")

    # 5. latent prior names ------------------------------------------------
    cfg = ctx.fn(tables.FP + ".configure_latent_prior")
    accepted = compared_literals(cfg.node, "self.latent_prior")
    ctx.require(len(accepted) >= 4, "configure_latent_prior: accepted latent prior names not found")
    ctx.ob("R-REG", "C20.3", cfg, "unknown latent prior is rejected (final else raises)", _chain_ends_in_raise(cfg, "self.latent_prior"), f"accepted: {sorted(accepted)}")
    fpc = prog.cls(tables.FP)
    for c in [fpc] + prog.subclasses(fpc):
        for m in c.methods.values():
            if m is cfg:
                continue
            lits = compared_literals(m.node, "self.latent_prior")
            if lits:
                ctx.ob("R-REG", "C20.3", m, "latent prior names handled here are names the validator accepts", lits <= accepted, f"handled {sorted(lits)}; stale: {sorted(lits - accepted)}")
    init = ctx.fn(tables.FP + ".__init__")
    reach = reachable_from(prog, [init.qual])
    ctx.ob("R-ORDER", "C20.5", init, "latent prior validated from the proposal constructor", cfg.qual in reach, "configure_latent_prior reachable from FlowProposal.__init__")

    # 6. INS stopping criteria / check_criteria -----------------------------
    ins = prog.cls(tables.INS)
    al = ins.class_attrs.get("stopping_criterion_aliases")
    ctx.require(al is not None, "stopping_criterion_aliases vanished")
    aliases = {}
    if isinstance(al, ast.Call) and call_name(al) == "dict":
        for kw in al.keywords:
            aliases[kw.arg] = [c.value for c in ast.walk(kw.value) if isinstance(c, ast.Constant) and isinstance(c.value, str)]
    elif isinstance(al, ast.Dict):
        for k, v in zip(al.keys, al.values):
            aliases[k.value] = [c.value for c in ast.walk(v) if isinstance(c, ast.Constant) and isinstance(c.value, str)]
    ctx.require(len(aliases) >= 3, "could not read stopping_criterion_aliases")
    csc = ctx.fn(tables.INS + ".compute_stopping_criterion")
    assigned = {n.attr for n in walk_no_nested(csc.node) if isinstance(n, ast.Attribute) and isinstance(n.ctx, ast.Store) and isinstance(n.value, ast.Name) and n.value.id == "self"}
    seen = {}
    for k, als in aliases.items():
        ctx.ob("R-REG", "C20.3", csc, f"stopping criterion `{k}` is computed (assigned as an attribute) before being read by name", k in assigned, f"assigned in compute_stopping_criterion: {sorted(assigned)}")
        ctx.ob("R-REG", "C20.3", ins.qual, f"stopping criterion `{k}` is its own alias", k in als, f"aliases {als}")
        for a in als:
            ctx.ob("R-REG", "C20.3", ins.qual, f"alias `{a}` maps to exactly one criterion", a not in seen, f"{a} -> {k} and {seen.get(a)}")
            seen[a] = k
    conf = ctx.fn(tables.INS + ".configure_stopping_criterion")
    ctx.ob("R-REG", "C20.3", conf, "unknown stopping criterion and mismatched tolerance count are rejected", sum(isinstance(n, ast.Raise) for n in walk_no_nested(conf.node)) >= 3, "")
    # a multi-criterion option only terminates as configured if every tolerance stays with its own criterion
    from .C15 import criteria_pairing

    criteria_pairing(ctx, conf, "C20.3")
    ctx.ob("R-REG", "C20.3", conf, "check_criteria restricted to {'any','all'}", compared_literals(conf.node, "check_criteria") == {"any", "all"}, f"{sorted(compared_literals(conf.node, 'check_criteria'))}")
    iinit = ctx.fn(tables.INS + ".__init__")
    ia = FA(iinit)
    for callee in ("self.configure_stopping_criterion", "self.check_configuration", "self.configure_iterations"):
        calls = ia.find_calls(callee)
        ctx.ob("R-ORDER", "C20.5", iinit, f"{callee}() runs on every path through the sampler constructor", len(calls) == 1 and ia.on_every_normal_path(calls[0][0]), "")
    cc = ctx.fn(tables.INS + ".check_configuration")
    tests = [canon(n.test) for n in walk_no_nested(cc.node) if isinstance(n, ast.If) and any(isinstance(x, ast.Raise) for x in n.body)]
    ctx.ob("R-REG", "C20.3", cc, "min_samples > nlive and min_remove > nlive are rejected up front", cexpr("self.min_samples > self.nlive") in tests and cexpr("self.min_remove > self.nlive") in tests, f"{tests}")

    # 7. threshold methods ---------------------------------------------------
    dl = ctx.fn(tables.INS + ".determine_log_likelihood_threshold")
    lits = compared_literals(dl.node, "method")
    handlers = {"quantile": "determine_threshold_quantile", "entropy": "determine_threshold_entropy"}
    for name, meth in handlers.items():
        ctx.ob("R-REG", "C20.3", dl, f"threshold method `{name}` dispatches to an existing method", name in lits and prog.find_method(ins, meth) is not None, f"handled literals {sorted(lits)}")
    ctx.ob("R-REG", "C20.3", dl, "unknown threshold method is rejected", _chain_ends_in_raise(dl, "method"), "")

    # 8. posterior sampling methods ---------------------------------------------
    dp = ctx.fn("nessai.posterior:draw_posterior_samples")
    lits = compared_literals(dp.node, "method")
    ctx.ob("R-REG", "C20.3", dp, "posterior sampling methods {rejection_sampling, multinomial_resampling, importance_sampling} handled, others rejected",
           {"rejection_sampling", "multinomial_resampling", "importance_sampling"} <= lits and _chain_ends_in_raise(dp, "method"), f"{sorted(lits)}")
    fs = prog.cls(tables.FS)
    for m in fs.methods.values():
        for n in walk_no_nested(m.node):
            if isinstance(n, ast.Assign) and isinstance(n.targets[0], ast.Name) and n.targets[0].id == "posterior_sampling_method" and isinstance(n.value, ast.Constant):
                ctx.ob("R-REG", "C20.3", m, "default posterior sampling method is one the dispatcher handles", n.value.value in lits, f"default {n.value.value!r}", node=n)

    # 9. kwargs validated before the proposal is constructed -----------------------
    cfp = ctx.fn(tables.NS + ".configure_flow_proposal")
    ca = FA(cfp)
    chk = ca.find_calls("check_proposal_kwargs")
    stores = [n for n, s in ca.assigns_to_attr("_flow_proposal")]
    ctx.ob("R-ORDER", "C20.5", cfp, "check_proposal_kwargs runs before the flow proposal is constructed", len(chk) >= 1 and len(stores) == 1 and ca.dominates(chk[0][0], stores[0]), "")
    ninit = ctx.fn(tables.NS + ".__init__")
    reach = reachable_from(prog, [ninit.qual])
    ctx.ob("R-ORDER", "C20.5", ninit, "flow / uninformed proposal configured (and their options validated) from the sampler constructor",
           cfp.qual in reach and prog.fn(tables.NS + ".configure_uninformed_proposal").qual in reach and ctx.fn("nessai.proposal.utils:get_flow_proposal_class").qual in reach, "")
    # an option string is compared under one normalisation (a name that is looked up case-insensitively is not tested raw)
    from ..rules import optnorm as _on
    _hits = _on.scan(prog)
    ctx.require(len(_hits) >= 1, "no comparison of a case-normalised option string found (configure_post_rescaling expected)")
    for _f, _n, _ok, _why in _hits:
        ctx.ob("R-NORM", "C20.3", _f, "an option that is looked up case-insensitively is compared with its literal values under the same normalisation", _ok, _why, node=_n)
    # ---- every stopping criterion is tested in the direction in which it converges ---------------------------------------
    # (an option whose test can only be met at the start of a run, or never, neither terminates as configured nor is
    # rejected up front)
    _dir = {
        "ratio": ("down", "log evidence in the live points relative to the total: shrinks as the run converges"),
        "ratio_ns": ("down", "same ratio against the nested samples only"),
        "Z_err": ("down", "exp of the log-evidence error: shrinks towards 1"),
        "log_dZ": ("down", "change of log Z between iterations: shrinks"),
        "fractional_error": ("down", "evidence error / evidence: shrinks"),
        "ess": ("up", "effective number of posterior samples: grows with every level, so 'reached' means ess >= tolerance"),
    }
    ins_c = prog.cls(tables.INS)
    al_ = next((s_.value for s_ in ins_c.node.body if isinstance(s_, ast.Assign) and any(isinstance(t_, ast.Name) and t_.id == "stopping_criterion_aliases" for t_ in s_.targets)), None)
    crit_names = []
    if isinstance(al_, ast.Call):
        crit_names = [k_.arg for k_ in al_.keywords]
    elif isinstance(al_, ast.Dict):
        crit_names = [k_.value for k_ in al_.keys if isinstance(k_, ast.Constant)]
    ctx.require(len(crit_names) >= 6, "stopping_criterion_aliases table not found")
    rt_ = [f_ for f_ in prog.all_functions if f_.cls is ins_c and f_.name == "reached_tolerance"][0]
    cmps_ = [n_ for n_ in walk_no_nested(rt_.node) if isinstance(n_, ast.Compare) and len(n_.ops) == 1 and isinstance(n_.ops[0], (ast.Lt, ast.LtE, ast.Gt, ast.GtE)) and {type(x_) for x_ in (n_.left, n_.comparators[0])} == {ast.Name}]
    ctx.require(bool(cmps_), "reached_tolerance: comparison of criterion and tolerance not found")

    def _dir_of(cmp_, crit_var, tol_var):
        l_, r_ = cmp_.left.id, cmp_.comparators[0].id
        down = isinstance(cmp_.ops[0], (ast.Lt, ast.LtE))
        if (l_, r_) == (tol_var, crit_var):
            down = not down
        return "down" if down else "up"

    zips_ = [n_ for n_ in walk_no_nested(rt_.node) if isinstance(n_, ast.comprehension) and isinstance(n_.iter, ast.Call) and src(n_.iter.func) == "zip" and isinstance(n_.target, ast.Tuple)]
    for name_ in crit_names:
        want_, why_ = _dir.get(name_, (None, "criterion not in the reviewed direction table"))
        got_ = set()
        for z_ in zips_:
            srcs_ = [src(a_) for a_ in z_.iter.args]
            tv_ = [e_.id for e_ in z_.target.elts if isinstance(e_, ast.Name)]
            if "self.criterion" not in srcs_ or "self.tolerance" not in srcs_ or len(tv_) != len(srcs_):
                continue
            cv_, tlv_ = tv_[srcs_.index("self.criterion")], tv_[srcs_.index("self.tolerance")]
            for c_ in cmps_:
                if {c_.left.id, c_.comparators[0].id} != {cv_, tlv_}:
                    continue
                # a per-criterion selection `A if <name var> == "<crit>" else B`
                sel_ = next((x_ for x_ in walk_no_nested(rt_.node) if isinstance(x_, ast.IfExp) and any(y_ is c_ for y_ in ast.walk(x_)) and isinstance(x_.test, ast.Compare) and any(isinstance(k_, ast.Constant) and k_.value in crit_names for k_ in ast.walk(x_.test))), None)
                if sel_ is not None:
                    lits_ = {k_.value for k_ in ast.walk(sel_.test) if isinstance(k_, ast.Constant)}
                    in_body = any(y_ is c_ for y_ in ast.walk(sel_.body))
                    eq_ = isinstance(sel_.test.ops[0], (ast.Eq, ast.In))
                    applies = (name_ in lits_) == (in_body == eq_)
                    if not applies:
                        continue
                got_.add(_dir_of(c_, cv_, tlv_))
        ctx.ob("R-REG", "C20.3", rt_, f"stopping criterion `{name_}` is met in the direction in which it converges ({want_}: {why_})", got_ == {want_}, f"tested as {sorted(got_)}")
    # an option attribute that is compared as stored must be stored normalised (class-level R-NORM)
    from ..rules import optnorm as _on2
    for _f, _n, _ok, _why in _on2.scan_attributes(prog):
        ctx.ob("R-NORM", "C20.3", _f, "an option that is accepted case-insensitively and compared as stored is stored in its normalised spelling", _ok, _why, node=_n)
    ctx.floor("C20.3", 60)
    ctx.floor("C20.5", 6)


def _chain_ends_in_raise(fi, subject):
    """Values of `subject` that no branch handles are rejected: some `raise` runs under guards that
    only say what `subject` is *not*, and they exclude every literal a branch tests for positively
    (shape of the chain - elif, nested else, early returns, swapped arms - is irrelevant)."""
    fa = FA(fi)
    is_sel = lambda e: src(e) == subject
    handled = set()
    rejecting = []
    for n in fa.nodes():
        facts = guard_facts(fa, n.id)
        pos, neg = literal_tests(facts, is_sel)
        for e, t in facts:  # multi-valued membership tests handle all their values
            if isinstance(e, ast.Compare) and len(e.ops) == 1 and isinstance(e.ops[0], (ast.In, ast.NotIn)) and is_sel(e.left) and isinstance(e.ops[0], ast.In) == t:
                pos |= {c.value for c in ast.walk(e.comparators[0]) if isinstance(c, ast.Constant)}
        handled |= pos
        if n.kind == "stmt" and isinstance(n.ast, ast.Raise) and not pos and neg:
            rejecting.append(neg)
    return any(neg >= handled for neg in rejecting)
