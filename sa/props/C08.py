"""C08 - flow and proposal densities are consistent with their samples (sign / drop discipline)."""

import ast

from .. import tables
from ..canon import single_assignments
from ..pat import find_expr, find_stmt, match_expr, match_stmt
from ..pm import src
from ..q import FA, call_name, guard_facts, ifs_on, walk_no_nested
from ..resolve import resolver
from ..rules import sign

TECHNIQUE = "R-SIGN: Jacobian-direction typing by dataflow (every tuple result of a directional map is tagged forward / inverse and must enter additive expressions with + / -, through accumulators and callee parameters), no-drop rule on density-returning functions, R-SIB delegation agreement of the array-level FlowModel wrappers, override-uses-its-parameters rule; R-PAIR must-pair rule for cache invalidation; registered-container rule for torch sub-modules; R-PAIR scan over the proposal modules"

MODS = ("nessai.flows.base", "nessai.flowmodel.base", "nessai.flowmodel.importance", "nessai.proposal.flowproposal", "nessai.proposal.augmented", "nessai.proposal.importance", "nessai.samplers.importancesampler", "nessai.experimental.proposal.clustering", "nessai.experimental.flowmodel.clustering", "nessai.gw.proposal", "nessai.flows.realnvp", "nessai.flows.maf", "nessai.flows.nsf")

# functions that return (or store) the density of the point they map: every Jacobian they obtain must be consumed
DENSITY_FUNCTIONS = [
    "nessai.flows.base:NFlow.log_prob", "nessai.flows.base:NFlow.forward_and_log_prob", "nessai.flows.base:NFlow.sample_and_log_prob",
    tables.FM + ".sample_and_log_prob", tables.FP + ".forward_pass", tables.FP + ".backward_pass", tables.AFP + ".backward_pass",
    tables.IFP + ".update_log_q", tables.IFP + ".draw_from_flows", tables.IFP + ".compute_kl_between_proposals", tables.IFP + ".draw_from_prior", tables.IFP + ".compute_meta_proposal_samples",
]
# Jacobians that are only used as a finiteness mask (reviewed): the density is computed from the companion forward Jacobian
MASK_ONLY_OK = {(tables.IFP + ".draw", "self.inverse_rescale"), (tables.IFP + ".draw_from_flows", "self.inverse_rescale")}


def run(ctx):
    prog = ctx.prog
    res = resolver(prog)
    dens = {prog.fn(q).qual for q in DENSITY_FUNCTIONS}
    mask_ok = {(prog.fn(q).qual, v) for q, v in MASK_ONLY_OK}

    # ---- C08.1 sign of every Jacobian use -----------------------------------
    n_src = n_use = 0
    passed = []
    for f in prog.all_functions:
        if f.module.name not in MODS or f.parent is not None:
            continue
        r = sign.analyse(f)
        n_src += len(r.sources)
        for s, v, tag, sg, text in r.uses:
            n_use += 1
            want = 1 if tag == sign.FWD else -1
            ctx.ob("R-SIGN", "C08.1", f, f"Jacobian returned by `{r.origin.get(v, '?')}` ({tag.split(' (')[0]} map) enters the density with {'+' if want > 0 else '-'}", sg == want,
                   f"`{text}` ({tag.split(':')[0]})", node=s)
        for c, kw, v, tag in r.passed:
            passed.append((f, c, kw, v, tag))
        if f.qual in dens:
            for v, d, s in r.unused:
                ctx.ob("R-SIGN", "C08.1", f, f"no Jacobian obtained while computing a density is dropped", False, f"`{src(s)[:80]}`: the {d.split(' (')[0]} Jacobian `{v}` never reaches the returned density", node=s)
            masks = {m[0] for m in r.mask_only}
            used = {u[1] for u in r.uses} | {p_[2] for p_ in r.passed}
            for m in masks - used:
                org = r.origin.get(m, "?")
                ctx.ob("R-SIGN", "C08.1", f, f"Jacobian of `{org}` used only as a finiteness mask is a reviewed case", (f.qual, org) in mask_ok, "only np.isfinite(...) of it is used; the density must then come from the companion Jacobian", node=f.node)
            if not r.sources and not r.uses and not f.qual.endswith("draw_from_prior"):
                ctx.ob("R-SIGN", "C08.1", f, "density function obtains a Jacobian from a directional map", False, "no directional call found: the rule would pass vacuously")
    ctx.extra["jacobian_sources"] = n_src
    ctx.extra["jacobian_uses_checked"] = n_use
    # Jacobian parameters: tagged from their call sites, then checked inside the callee
    cq = ctx.fn(tables.IFP + ".compute_log_Q")
    sites = [(f, c, v, tag) for f, c, kw, v, tag in passed if kw == "log_j" and (call_name(c) or "").endswith("compute_log_Q")]
    ctx.require(len(sites) >= 3, "call sites passing log_j to compute_log_Q not found")
    for f, c, v, tag in sites:
        ctx.ob("R-SIGN", "C08.1", f, "compute_log_Q receives the forward (unit hypercube -> flow space) Jacobian of the same points", tag == sign.FWD, f"`{src(c)[:80]}` passes `{v}` ({tag.split(':')[0]})", node=c)
    r = sign.analyse(cq, {"log_j": sign.FWD})
    ctx.ob("R-SIGN", "C08.1", cq, "inside compute_log_Q that Jacobian is added to every flow's log-density", len(r.uses) >= 1 and not r.bad and len(find_expr("self.flow.log_prob_all(x_prime) + log_j[:, newaxis]", cq.node)) == 1, f"{[u[4] for u in r.uses]}")
    ctx.floor("C08.1", 20)

    # ---- C08.2 delegation agreement of the array-level wrappers ---------------------
    fm = prog.cls(tables.FM)
    for name, call in (("log_prob", "self.model.log_prob($x, context=$c)"), ("forward_and_log_prob", "self.model.forward_and_log_prob($x, context=$c)"), ("sample", "self.model.sample(int($n), context=$c)"), ("sample_latent_distribution", "self.model.sample_latent_distribution($n)")):
        f = fm.methods[name]
        ctx.analysed_functions.add(f.qual)
        hits = find_expr(call, f.node)
        ctx.ob("R-SIB", "C08.2", f, f"array-level {name} delegates to the same-named method of the underlying flow", len(hits) == 1, f"{len(hits)} delegating calls")
        if name in ("log_prob", "forward_and_log_prob") and hits:
            xin = src(hits[0][1]["x"])
            conv = find_stmt(f"{xin} = self.numpy_array_to_tensor({f.params()[1]})", f.node)
            ctx.ob("R-SIB", "C08.2", f, f"{name} evaluates the flow on the caller's array (converted to a tensor), with the caller's conditional", len(conv) == 1 or xin == f.params()[1], "")
    sp = fm.methods["sample_and_log_prob"]
    sa = FA(sp)
    okd = len(find_stmt("$$x, $$lp = self.model.sample_and_log_prob(int(N), context=conditional)", sp.node)) == 1
    ctx.ob("R-SIB", "C08.2", sp, "without latent points: samples and their density come from the flow's own sample_and_log_prob(N)", okd and any(("z is None", True) in [(src(e), t) for e, t in guard_facts(sa, sa.cfg.id_of(n))] for n, b in find_stmt("$$x, $$lp = self.model.sample_and_log_prob(int(N), context=conditional)", sp.node)), "")
    # two equivalent shapes: the density *function* is selected and then applied, or each arm applies its own
    sel = ifs_on(sp.node, "alt_dist is not None")
    inv = find_stmt("$$x, $$J = self.model.inverse($$z, context=conditional)", sp.node)
    oks, lat = False, []
    if len(sel) == 1:
        _, then, other = sel[0]
        fa_ = [b for s_ in then for b in [match_stmt("$$f = alt_dist.log_prob", s_)] if b is not None]
        fb_ = [b for s_ in other for b in [match_stmt("$$f = self.model.base_distribution_log_prob", s_)] if b is not None]
        da_ = [b for s_ in then for b in [match_stmt("$$lp = alt_dist.log_prob($$z)", s_)] if b is not None]
        db_ = [b for s_ in other for b in [match_stmt("$$lp = self.model.base_distribution_log_prob($$z)", s_)] if b is not None]
        if len(fa_) == 1 and len(fb_) == 1 and src(fa_[0]["f"]) == src(fb_[0]["f"]):
            lat = find_stmt("$$lp = $$f($$z)", sp.node, {"f": fa_[0]["f"]})
            oks = len(lat) == 1
        elif len(da_) == 1 and len(db_) == 1 and src(da_[0]["lp"]) == src(db_[0]["lp"]) and src(da_[0]["z"]) == src(db_[0]["z"]):
            lat = [(None, da_[0])]
            oks = True
    ctx.ob("R-SIB", "C08.2", sp, "with latent points: their density function is alt_dist.log_prob iff an alternative latent distribution was given, else the flow's base distribution", oks, "")
    okz = len(inv) == 1 and any(src(b["z"]) == src(inv[0][1]["z"]) for n, b in lat) and src(inv[0][1]["z"]) == "z"
    ctx.ob("R-SIB", "C08.2", sp, "the latent density is evaluated at the same z that is pushed through the inverse transform", okz, "")
    rets = [n for n in walk_no_nested(sp.node) if isinstance(n, ast.Return)]
    okret = False
    if len(rets) == 1 and isinstance(rets[0].value, ast.Tuple) and len(rets[0].value.elts) == 2 and inv and lat:
        def _bare(e_):
            # tensor -> array conversions do not change which quantity is returned
            while isinstance(e_, ast.Call) and isinstance(e_.func, ast.Attribute) and e_.func.attr in ("detach", "cpu", "numpy", "astype", "copy", "double", "float"):
                e_ = e_.func.value
            return e_

        rx, rp = src(_bare(rets[0].value.elts[0])), src(_bare(rets[0].value.elts[1]))
        okret = rx == src(inv[0][1]["x"]) and rp in [src(b["lp"]) for n, b in lat]
    ctx.ob("R-SIB", "C08.2", sp, "returns the generated samples with the density computed for them", okret, "")
    ctx.floor("C08.2", 9)

    # ---- C08.3 overrides use the parameters the result depends on ------------------------------
    base_params = {"sample_and_log_prob": ["z", "alt_dist"], "log_prob": ["x"], "forward_and_log_prob": ["x"]}
    n_ov = 0
    for k in prog.subclasses(fm):
        for name, needed in base_params.items():
            g = k.methods.get(name)
            if g is None:
                continue
            for p_ in needed:
                if p_ not in g.params():
                    continue
                n_ov += 1
                flows = value_flows_to_return(g, p_)
                rejects = any(isinstance(n, ast.If) and src(n.test) == f"{p_} is not None" and any(isinstance(x, ast.Raise) for x in n.body) for n in walk_no_nested(g.node))
                ctx.ob("R-SIG", "C08.3", g, f"override of FlowModel.{name}: the values of parameter `{p_}` reach the result (or the parameter is rejected)", flows or rejects, f"`{p_}` is accepted but only its size / presence is used: the supplied values are ignored and fresh samples are returned")
    ctx.ob("R-SIG", "C08.3", tables.FM, "override-parameter rule ran over every FlowModel subclass", True, f"{n_ov} (override, parameter) pairs checked")

    # ---- C08.5 the density path keeps the configured precision ---------------------------------------------
    # torch_dtype='float64' switches torch's default dtype; every tensor on the array-level density path must follow it
    # (torch.get_default_dtype()), never a hard-coded narrower type: the final .astype(np.float64) would hide the loss
    from ..callgraph import reachable_from

    roots = [f"{tables.FM}.{m}" for m in ("log_prob", "forward_and_log_prob", "sample_and_log_prob", "sample", "sample_latent_distribution", "numpy_array_to_tensor")]
    ifm = prog.cls("nessai.flowmodel.importance:ImportanceFlowModel")
    roots += [ifm.methods[m].qual for m in ("log_prob_ith", "log_prob_all", "sample_ith") if m in ifm.methods]
    for k_ in prog.subclasses(fm):
        roots += [m_.qual for n_, m_ in k_.methods.items() if n_ in ("log_prob", "forward_and_log_prob", "sample_and_log_prob", "sample", "sample_latent_distribution")]
    roots += [m_.qual for c_ in [prog.cls("nessai.flows.base:NFlow")] + prog.subclasses(prog.cls("nessai.flows.base:NFlow")) for n_, m_ in c_.methods.items() if n_ in ("forward", "inverse", "log_prob", "sample", "sample_and_log_prob", "forward_and_log_prob", "base_distribution_log_prob", "sample_latent_distribution")]
    reach_ = sorted(q for q in reachable_from(prog, [prog.fn(r).qual for r in roots if prog.functions.get(r) is not None or True]) if q.startswith(("nessai.flowmodel", "nessai.flows", "nessai.utils.torchutils")))
    ctx.require(_narrow_dtype_uses(ast.parse(_DTYPE_FIXTURE)) >= 4, "R-DTYPE fixture: the narrow-precision rule did not match the planted sites")
    n_d = 0
    for q in reach_:
        f_ = prog.functions.get(q)
        if f_ is None or f_.module.name == "nessai.utils.torchutils":
            continue
        n_d += 1
        ctx.analysed_functions.add(f_.qual)
        bad_ = _narrow_dtype_sites(f_.node)
        ctx.ob("R-DTYPE", "C08.5", f_, "no tensor on the density path is created or cast with a hard-coded narrow precision (float32 / float16 / .float() / .half())", not bad_, f"{bad_[:3]}")
    ctx.floor("C08.5", 12)

    # ---- C08.6 data-space / latent-space typing of the points handed to the flow interface ------------------
    from ..rules import space

    n_sp = 0
    for f_ in prog.all_functions:
        mn_ = f_.module.name
        if f_.parent is not None or not mn_.startswith(("nessai.flowmodel", "nessai.flows", "nessai.experimental.flowmodel", "nessai.proposal", "nessai.experimental.proposal", "nessai.gw.proposal")):
            continue
        pt_ = {}
        if mn_.startswith(("nessai.flowmodel", "nessai.flows", "nessai.experimental.flowmodel")):
            pt_ = {p_: (space.DATA if p_ == "x" else space.LATENT) for p_ in f_.params() if p_ in ("x", "z")}
        reps_ = space.analyse(f_, pt_)
        n_sp += 1
        if reps_ or any(isinstance(c_, ast.Call) and isinstance(c_.func, ast.Attribute) and c_.func.attr in space.CONSUME for c_ in walk_no_nested(f_.node)):
            ctx.analysed_functions.add(f_.qual)
            ctx.ob("R-SPACE", "C08.6", f_, "every point handed to log_prob / forward is a data-space point and every point handed to inverse / base_distribution_log_prob is a latent point (re-bindings followed in statement order)", not reps_, "; ".join(m_ for _, m_ in reps_)[:300], node=reps_[0][0] if reps_ else None)
    ctx.floor("C08.6", 15)

    # ---- C08.4 NFlow definitions ---------------------------------------------------------------------
    nf = prog.cls("nessai.flows.base:NFlow")
    def _ret(fi, pattern, binds):
        """the single return of fi matches `pattern` after inlining single-assignment locals"""
        rr_ = [n for n in walk_no_nested(fi.node) if isinstance(n, ast.Return)]
        return len(rr_) == 1 and rr_[0].value is not None and match_expr(pattern, rr_[0].value, binds, inline=single_assignments(fi.node)) is not None

    g = nf.methods["log_prob"]
    tj = find_stmt("$$z, $$J = self._transform(inputs, context=context)", g.node)
    ok1 = len(tj) == 1 and _ret(g, "self._distribution.log_prob($$z) + $$J", tj[0][1])
    ctx.ob("R-SIB", "C08.4", g, "log_prob(x) = base log-density of the transformed x + log|det| of the forward transform", ok1, "")
    g = nf.methods["sample_and_log_prob"]
    zs = find_stmt("$$z, $$lp = self._distribution.sample_and_log_prob(N)", g.node)
    xs = find_stmt("$$x, $$J = self._transform.inverse($$z, context=context)", g.node, {"z": zs[0][1]["z"]}) if len(zs) == 1 else []
    ok2 = len(zs) == 1 and len(xs) == 1 and _ret(g, "($$x, $$lp - $$J)", {**zs[0][1], **xs[0][1]})
    ctx.ob("R-SIB", "C08.4", g, "sample_and_log_prob = base samples pushed through the inverse, base log-density - log|det inverse|", ok2, "")
    g = nf.methods["forward_and_log_prob"]
    tj = find_stmt("$$z, $$J = self.forward(x, context=context)", g.node)
    ok3 = len(tj) == 1 and _ret(g, "($$z, self.base_distribution_log_prob($$z) + $$J)", tj[0][1])
    ctx.ob("R-SIB", "C08.4", g, "forward_and_log_prob returns the latent point and base log-density + log|det|", ok3, "")
    for nm, want in (("forward", "return self._transform.forward(x, context=context)"), ("inverse", "return self._transform.inverse(z, context=context)"), ("base_distribution_log_prob", "return self._distribution.log_prob(z)")):
        ctx.ob("R-SIB", "C08.4", nf.methods[nm], f"{nm} delegates to the transform / distribution it names", len(find_stmt(want, nf.methods[nm].node)) == 1, "")
    ctx.floor("C08.4", 6)
    # ---- C08.7 a re-initialised cached linear transform drops its cache -------------------------------------------
    # glasflow's LULinear caches weight, inverse and log|det| separately in eval mode (create_linear_transform builds
    # it with using_cache=True) and only train(True) clears them: re-initialising the parameters while a partly filled
    # cache survives makes forward and inverse use different matrices.  Every `m._initialize(...)` in the flows
    # package is therefore paired, in the same block, with `m.cache.invalidate()` on the same module.
    n_init = 0
    for f_ in prog.all_functions:
        if not f_.module.name.startswith("nessai.flows") and not f_.module.name.startswith("nessai.flowmodel"):
            continue
        for blk_owner in ast.walk(f_.node):
            for fld in ("body", "orelse", "finalbody"):
                blk = getattr(blk_owner, fld, None)
                if not (isinstance(blk, list) and blk and isinstance(blk[0], ast.stmt)):
                    continue
                for st_ in blk:
                    if isinstance(st_, ast.Expr) and isinstance(st_.value, ast.Call) and isinstance(st_.value.func, ast.Attribute) and st_.value.func.attr == "_initialize":
                        recv = src(st_.value.func.value)
                        n_init += 1
                        inval = any(isinstance(o_, ast.Expr) and isinstance(o_.value, ast.Call) and src(o_.value.func) == recv + ".cache.invalidate" for o_ in blk)
                        ctx.ob("R-PAIR", "C08.7", f_, "re-initialising a cached linear transform also invalidates its cache (same module, same block)", inval, f"`{src(st_)[:70]}`" + ("" if inval else f": no `{recv}.cache.invalidate()` next to it - a cache filled in one direction survives the reset"), node=st_)
    ctx.require(n_init >= 1, "no `_initialize` call found in the flows package (reset_permutations expected)")
    cl_ = ctx.fn("nessai.flows.utils:create_linear_transform")
    ctx.ob("R-PAIR", "C08.7", cl_, "the LU transform is built with its cache enabled (which is why resets must invalidate it)", any(isinstance(c_, ast.Call) and (call_name(c_) or "").endswith("LULinear") and any(k.arg == "using_cache" and isinstance(k.value, ast.Constant) and k.value.value is True for k in c_.keywords) for c_ in ast.walk(cl_.node)), "")
    ctx.floor("C08.7", 2)

    # ---- C08.8 every sub-module is a registered child ------------------------------------------------------------
    # FlowModel / the proposals make a flow deterministic with model.eval() (and move / save it with .to() / state_dict());
    # torch reaches only *registered* children: an attribute holding a plain list / tuple / dict of modules hides them, so
    # dropout or batch-norm layers kept that way stay in training mode and log_prob no longer matches sample_and_log_prob.
    # In every torch module class of the package (an nn.Module / Distribution / Transform base somewhere in the MRO), a
    # container of freshly built modules stored on self is an nn.ModuleList / ModuleDict / Sequential.
    def _module_class(c_):
        return any(b_.split(".")[-1] in ("Module", "Distribution", "Transform", "Flow", "CompositeTransform") for k_ in prog.mro(c_) for b_ in k_.ext_bases)

    def _builds_module(e_):
        for c_ in ast.walk(e_):
            if isinstance(c_, ast.Call):
                d_ = src(c_.func)
                if d_.startswith(("nn.", "torch.nn.", "transforms.")) and d_.split(".")[-1][:1].isupper():
                    return d_
                r_ = prog.resolve_expr(mod_, c_.func) if isinstance(c_.func, (ast.Name, ast.Attribute)) else None
                if r_ and r_[0] == "class" and _module_class(r_[1]):
                    return d_
        return None

    n_cont = n_reg = 0
    for c_ in prog.classes.values():
        if not _module_class(c_):
            continue
        mod_ = c_.module
        for m_ in c_.methods.values():
            for s_ in walk_no_nested(m_.node):
                if not (isinstance(s_, ast.Assign) and any(isinstance(t_, ast.Attribute) and isinstance(t_.value, ast.Name) and t_.value.id == "self" for t_ in s_.targets)):
                    continue
                v_ = s_.value
                if isinstance(v_, ast.Call) and src(v_.func).split(".")[-1] in ("ModuleList", "ModuleDict", "Sequential"):
                    n_reg += 1
                    continue
                if isinstance(v_, (ast.List, ast.Tuple, ast.ListComp, ast.GeneratorExp, ast.Dict, ast.DictComp, ast.SetComp)) or (isinstance(v_, ast.Call) and src(v_.func) in ("list", "tuple", "dict")):
                    built_ = _builds_module(v_)
                    if built_:
                        n_cont += 1
                        ctx.ob("R-REG", "C08.8", m_, "a container of sub-modules stored on a torch module is a registered container (nn.ModuleList / ModuleDict / Sequential), so eval() / to() / state_dict() reach its members", False, f"`{src(s_)[:90]}` holds `{built_}(...)` in a plain Python container", node=s_)
    ctx.ob("R-REG", "C08.8", "nessai.flows", "every container of sub-modules stored on a torch module of the package was examined", True, f"{n_reg} registered containers (nn.ModuleList / Sequential), {n_cont} plain containers of modules")
    ctx.require(n_reg + n_cont >= 1, "no container of sub-modules found in the package's torch modules (MLP._hidden_layers expected)")
    ctx.floor("C08.8", 1)

    # ---- C08.9 a generated point keeps the density that was computed for it ---------------------------------------------
    # the proposals return parallel arrays (points, latent points, densities, Jacobians, per-proposal density rows): the
    # density attached to row i is the density *of* row i only while every mask, slice and concatenation is applied to all of
    # them together (R-PAIR; the same scan as C09.6 / C03.4, over the proposal modules)
    from ..rules import pair as _pair8
    from .C09 import PAIR_MODULES as _PM8

    def _ob8(f_, node_, ok_, detail_):
        ctx.ob("R-PAIR", "C08.9", f_, "arrays describing the same rows (points, latent points, densities, Jacobians) are filtered and indexed together", ok_, detail_, node=node_)

    nj8, _ni8 = _pair8.scan(prog, [f_ for f_ in prog.all_functions if f_.module.name in _PM8], _ob8)
    ctx.require(nj8 >= 8, f"only {nj8} joint filters found")
    ctx.floor("C08.9", 8)
    ctx.assumptions += ["invertibility and normalisation of the glasflow transforms, float tolerances and trained-weight behaviour are not decided", "direction table of map names (sa/rules/sign.py): forward/rescale/to_prime/_transform are data->latent, inverse/inverse_rescale/from_prime are latent->data"]


def value_flows_to_return(g, param):
    """Does the *value* of `param` (not just its length / presence) reach a returned expression?"""
    deps = {}
    for n in walk_no_nested(g.node):
        targets, val = [], None
        if isinstance(n, ast.Assign):
            for t in n.targets:
                targets += [x.id for x in ast.walk(t) if isinstance(x, ast.Name)]
            val = n.value
        elif isinstance(n, ast.AugAssign) and isinstance(n.target, ast.Name):
            targets, val = [n.target.id], n.value
        if val is None:
            continue
        for t in targets:
            deps.setdefault(t, set()).update(_value_names(val))
    roots = set()
    for n in walk_no_nested(g.node):
        if isinstance(n, ast.Return) and n.value is not None:
            roots |= _value_names(n.value)
    seen = set()
    stack = list(roots)
    while stack:
        v = stack.pop()
        if v in seen:
            continue
        seen.add(v)
        stack.extend(deps.get(v, ()))
    return param in seen


def _value_names(e):
    """Names whose values are used by e; len(x), x.shape, x.size, `x is None` use only the size / presence."""
    out = set()
    skip = set()
    for n in ast.walk(e):
        if isinstance(n, ast.Call) and isinstance(n.func, ast.Name) and n.func.id == "len":
            for x in ast.walk(n):
                skip.add(id(x))
        if isinstance(n, ast.Attribute) and n.attr in ("shape", "size", "ndim", "dtype"):
            for x in ast.walk(n):
                skip.add(id(x))
        if isinstance(n, ast.Compare) and any(isinstance(c, ast.Constant) and c.value is None for c in n.comparators):
            for x in ast.walk(n):
                skip.add(id(x))
    for n in ast.walk(e):
        if isinstance(n, ast.Name) and id(n) not in skip:
            out.add(n.id)
    return out


_NARROW = {"float32", "float16", "half", "bfloat16", "float"}
_DTYPE_FIXTURE = """
import torch, numpy as np
def f(x, n):
    a = torch.empty(n, dtype=torch.float32)
    b = x.float()
    c = x.to(torch.float16)
    d = np.zeros(n, dtype=np.float32)
    e = x.type(torch.get_default_dtype())
    return a, b, c, d, e
"""


def _narrow_dtype_sites(root):
    out = []
    for n in ast.walk(root):
        if isinstance(n, ast.Attribute) and n.attr in _NARROW - {"float"} and isinstance(n.value, ast.Name) and n.value.id in ("torch", "np", "numpy"):
            out.append(f"line {n.lineno}: `{src(n)}`")
        elif isinstance(n, ast.Call) and isinstance(n.func, ast.Attribute) and n.func.attr in ("float", "half", "bfloat16") and not n.args and not n.keywords:
            out.append(f"line {n.lineno}: `{src(n)[:60]}`")
        elif isinstance(n, ast.Constant) and isinstance(n.value, str) and n.value in ("float32", "float16", "f4", "f2", "<f4"):
            out.append(f"line {n.lineno}: dtype string `{n.value}`")
    return out


def _narrow_dtype_uses(tree):
    return len(_narrow_dtype_sites(tree))


CLAIM = {
    "text": "Decides the sign-and-drop discipline that makes generated and evaluated densities agree: every Jacobian returned by a directional map (forward / rescale / to_prime / _transform vs. inverse / inverse_rescale / from_prime) in the flow, flow-model and proposal modules is tagged and followed through accumulators, reshapes and callee parameters; a data->latent Jacobian must enter every additive expression with +, a latent->data Jacobian with -, and in density-returning functions none may be dropped (finiteness-mask-only uses are a reviewed list); compute_log_Q's Jacobian parameter is tagged from all its call sites; the array-level FlowModel wrappers delegate to the same-named flow method on the caller's array, and in the supplied-latent branch the density function is alt_dist.log_prob iff alt_dist is given and is applied to the same z that is inverted; NFlow's three density definitions match the documented forms; overrides of the FlowModel density methods must read the parameters the result depends on. Recorded findings: a diagnostic plot adds an inverse Jacobian, and the clustering flow model ignores supplied latent points. The density path keeps the configured precision: no hard-coded float32 / float16 / .float() / .half() in the 36 functions reachable from the array-level density interface (R-DTYPE). Data-space / latent-space typing of every point handed to log_prob / forward / inverse / base_distribution_log_prob over 241 functions, re-bindings followed in statement order (R-SPACE; found and repaired: ClusteringFlowModel.forward_and_log_prob evaluated the density at the latent point). Re-initialising a cached linear transform (LULinear._initialize) is paired with cache.invalidate() on the same module in the same block (C08.7). Every container of sub-modules stored on a torch module of the package is an nn.ModuleList / ModuleDict / Sequential, so eval() reaches dropout / batch-norm layers and the density evaluated equals the density sampled (C08.8). Parallel arrays (points, latent points, densities, Jacobians, density rows) are masked, sliced and concatenated together (C08.9).",
    "note": "Decides signs and completeness of Jacobian bookkeeping, not invertibility or normalisation of the transforms, float tolerances or trained-weight behaviour.",
}

_B = "nessai/flows/base.py"
_FM = "nessai/flowmodel/base.py"
_FP = "nessai/proposal/flowproposal.py"
_IP = "nessai/proposal/importance.py"
MUTANTS = [
    {"id": "dropout-layers-in-plain-list", "file": "nessai/flows/nets.py", "old": "        self._dropout_layers = nn.ModuleList(\n            nn.Dropout(dropout_probability)\n            for _ in range(len(self._hidden_layers))\n        )", "new": "        self._dropout_layers = [\n            nn.Dropout(dropout_probability) for _ in self._hidden_layers\n        ]", "expect": "registered container"},
    {"id": "density-evaluated-at-latent-point", "file": "nessai/experimental/flowmodel/clustering.py", "old": "        z, _ = super().forward_and_log_prob(x, conditional=cluster_labels)\n        log_prob = self.log_prob(x)\n        return z, log_prob", "new": "        x, _ = super().forward_and_log_prob(x, conditional=cluster_labels)\n        log_prob = self.log_prob(x)\n        return x, log_prob", "expect": "data-space point"},
    {"id": "base-density-of-data-point", "file": "nessai/flowmodel/base.py", "old": "                log_prob = log_prob_fn(z)\n                x, log_J = self.model.inverse(z, context=conditional)", "new": "                x, log_J = self.model.inverse(z, context=conditional)\n                log_prob = self.model.base_distribution_log_prob(x)", "expect": "C08"},
    {"id": "density-buffer-hard-coded-float32", "file": "nessai/flowmodel/importance.py", "old": "        log_prob = torch.empty(x.shape[0], n)\n", "new": "        log_prob = torch.empty(x.shape[0], n, dtype=torch.float32, device=x.device)\n", "expect": "hard-coded narrow precision"},
    {"id": "input-cast-to-float", "file": "nessai/flowmodel/base.py", "old": "            .type(torch.get_default_dtype())\n", "new": "            .float()\n", "expect": "hard-coded narrow precision"},
    {"id": "nflow-sample-sign", "file": _B, "old": "        return samples, log_prob - logabsdet", "new": "        return samples, log_prob + logabsdet", "expect": "enters the density with -"},
    {"id": "nflow-logprob-drops-det", "file": _B, "old": "        return log_prob + logabsdet", "new": "        return log_prob", "expect": "dropped"},
    {"id": "flowmodel-latent-sign", "file": _FM, "old": "                log_prob -= log_J\n", "new": "                log_prob += log_J\n", "expect": "enters the density with -"},
    {"id": "flowmodel-wrong-latent-density", "file": _FM, "old": "            if alt_dist is not None:\n                log_prob_fn = alt_dist.log_prob\n            else:\n                log_prob_fn = self.model.base_distribution_log_prob", "new": "            log_prob_fn = self.model.base_distribution_log_prob", "expect": "alt_dist.log_prob iff"},
    {"id": "lu-reinitialised-with-stale-cache", "file": "nessai/flows/utils.py", "old": "        module.cache.invalidate()\n        module._initialize(identity_init=True)", "new": "        module._initialize(identity_init=True)", "expect": "invalidates its cache"},
    {"id": "forward-pass-drops-rescale-jacobian", "file": _FP, "old": "        return z, log_prob + log_J\n", "new": "        return z, log_prob\n", "expect": "C08.1"},
    {"id": "backward-pass-sign", "file": _FP, "old": "            # Include Jacobian for the rescaling\n            log_prob -= log_J\n            x, z, log_prob", "new": "            # Include Jacobian for the rescaling\n            log_prob += log_J\n            x, z, log_prob", "expect": "enters the density with -"},
    {"id": "augmented-backward-drops-jacobian", "file": "nessai/proposal/augmented.py", "old": "            # Include Jacobian for the rescaling\n            log_prob -= log_J\n", "new": "", "expect": "dropped"},
    {"id": "update-log-q-sign", "file": _IP, "old": "[log_q, log_q_current[:, np.newaxis] + log_j[:, np.newaxis]]", "new": "[log_q, log_q_current[:, np.newaxis] - log_j[:, np.newaxis]]", "expect": "enters the density with +"},
    {"id": "update-log-q-drops-jacobian", "file": _IP, "old": "[log_q, log_q_current[:, np.newaxis] + log_j[:, np.newaxis]]", "new": "[log_q, log_q_current[:, np.newaxis]]", "expect": "dropped"},
    {"id": "compute-log-q-inverse-jacobian", "file": _IP, "old": "            x[\"logQ\"], log_q_all = self.compute_log_Q(x_prime, log_j=log_j)", "new": "            x[\"logQ\"], log_q_all = self.compute_log_Q(x_prime, log_j=log_j_inv)", "expect": "receives the forward"},
    {"id": "compute-log-q-sign", "file": _IP, "old": "                self.flow.log_prob_all(x_prime) + log_j[:, np.newaxis]\n            )\n        assert", "new": "                self.flow.log_prob_all(x_prime) - log_j[:, np.newaxis]\n            )\n        assert", "expect": "inside compute_log_Q"},
    {"id": "draw-from-flows-sign", "file": _IP, "old": "                self.flow.log_prob_all(prime_samples) + log_j[:, np.newaxis]", "new": "                self.flow.log_prob_all(prime_samples) - log_j[:, np.newaxis]", "expect": "enters the density with +"},
    {"id": "kl-sign", "file": _IP, "old": "        if p_it > -1:\n            log_p += log_j", "new": "        if p_it > -1:\n            log_p -= log_j", "expect": "enters the density with +"},
    {"id": "wrapper-evaluates-other-method", "file": _FM, "old": "            log_prob = self.model.log_prob(x, context=conditional)", "new": "            log_prob = self.model.base_distribution_log_prob(x)", "expect": "array-level log_prob delegates"},
    {"id": "nflow-forward-uses-inverse", "file": _B, "old": "        return self._transform.forward(x, context=context)", "new": "        return self._transform.inverse(x, context=context)", "expect": "forward delegates"},
]
