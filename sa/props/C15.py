"""C15 - sampling stops exactly per the stopping rule; finished runs are idempotent."""

import ast

import networkx as nx

from .. import AnalysisError, tables
from ..callgraph import callgraph
from ..canon import canon, linform, single_assignments, cexpr
from ..lin import lin_eq
from ..pm import src
from ..q import FA, attr_stores, call_name, compare_parts, conjuncts, const, guard_facts, ifs_on, is_self_attr, walk_no_nested
from ..resolve import resolver

TECHNIQUE = "R-PROV: the compared value is the recorded value (who-writes + canonical forms); R-DOM/R-ORDER on the loop guards, the iteration caps and the finalised short-circuits; R-SIB on the criterion definitions; call-graph check that no likelihood evaluation is reachable before the finalised guard; ESS family rule; extended-precision rule (shift degree); same-return rule; path-signature comparison of the criterion definitions with a reference implementation; loop-exit abstraction with per-path summaries for the finalise obligation"

NS, INS = tables.NS, tables.INS


def criteria_pairing(ctx, conf, clause):
    """Position pairing of the configured stopping criteria with their tolerances (shared with C20.3)."""
    from ..pat import match_expr

    # criteria and tolerances are paired by position: both lists must keep the order the caller gave
    cparams = conf.params()
    ctx.require(len(cparams) >= 3, "configure_stopping_criterion: parameters (criteria, tolerances, ...) not found")
    user_c, user_t = cparams[1], cparams[2]
    parents = {}
    for n_ in ast.walk(conf.node):
        for ch_ in ast.iter_child_nodes(n_):
            parents[ch_] = n_

    def outer_loops(node):
        out = []
        while node in parents:
            node = parents[node]
            if isinstance(node, (ast.For, ast.While)):
                out.append(node)
        return out[::-1]

    fills, bad_fill = 0, []
    for n_ in walk_no_nested(conf.node):
        if isinstance(n_, ast.Assign) and any(src(t_) == "self.stopping_criterion" for t_ in n_.targets):
            v_ = n_.value
            if isinstance(v_, ast.List) and not v_.elts:
                continue
            if isinstance(v_, ast.ListComp) and isinstance(v_.generators[0].iter, ast.Name) and v_.generators[0].iter.id == user_c:
                fills += 1
                continue
            bad_fill.append(src(n_)[:80])
        if isinstance(n_, ast.Call) and isinstance(n_.func, ast.Attribute) and src(n_.func.value) == "self.stopping_criterion":
            if n_.func.attr == "append":
                lo = outer_loops(n_)
                if lo and isinstance(lo[0], ast.For) and isinstance(lo[0].iter, ast.Name) and lo[0].iter.id == user_c:
                    fills += 1
                else:
                    bad_fill.append(f"append under `for ... in {src(lo[0].iter) if lo and isinstance(lo[0], ast.For) else None}`")
            elif n_.func.attr in ("insert", "extend", "sort", "reverse", "remove", "pop"):
                bad_fill.append(src(n_)[:80])
    ctx.ob("R-ORDER", clause, conf, "the configured criteria are stored in the order the caller listed them (outermost iteration over the caller's list): position i of the criteria pairs with tolerance i", fills == 1 and not bad_fill, f"{bad_fill}")
    tol_st = [n_ for n_ in walk_no_nested(conf.node) if isinstance(n_, ast.Assign) and any(src(t_) == "self.tolerance" for t_ in n_.targets)]
    okt = bool(tol_st) and all(match_expr(f"[float($$t) for $$t in {user_t}]", n_.value) is not None or match_expr(f"[float({user_t})]", n_.value) is not None for n_ in tol_st)
    ctx.ob("R-ORDER", clause, conf, "the tolerances are stored in the caller's order (element-wise float conversion only)", okt, f"{[src(n_)[:70] for n_ in tol_st]}")
    lens = [n_ for n_ in walk_no_nested(conf.node) if isinstance(n_, ast.If) and any(isinstance(x_, ast.Raise) for x_ in n_.body) and match_expr("len(self.stopping_criterion) != len(self.tolerance)", n_.test) is not None]
    ctx.ob("R-ORDER", clause, conf, "a criteria / tolerance count mismatch is rejected", len(lens) == 1, "")


def _checkpoint_in_window(prog, res, g, f_, fa_, first_c, end_):
    """calls between CFG nodes first_c and end_ (exclusive of end_) that can reach a checkpoint() method"""
    import networkx as _nx

    ck_q = {prog.fn(tables.BASE + ".checkpoint").qual}
    for k_ in prog.subclasses(prog.cls(tables.BASE)):
        if "checkpoint" in k_.methods:
            ck_q.add(k_.methods["checkpoint"].qual)
    out = []
    for nid, c_ in fa_.find_expr(lambda e: isinstance(e, ast.Call)):
        if nid == end_ or not (fa_.cfg.can_follow(first_c, nid) or nid == first_c) or not fa_.cfg.can_follow(nid, end_):
            continue
        for h_ in res.resolve_call(f_, c_, count=False) or []:
            reach_ = {h_.qual} | (set(_nx.descendants(g, h_.qual)) if h_.qual in g else set())
            if reach_ & ck_q:
                out.append(src(c_)[:60])
    return sorted(set(out))


def wide_exp_rule(ctx, clause):
    """Every exponential of a shift-degree-1 quantity in _INSIntegralState carries dtype=np.longdouble (shared by C15.5 and C05.6)."""
    prog = ctx.prog
    from ..canon import linform as _lf5
    ist_ = prog.cls("nessai.evidence:_INSIntegralState")
    deg1_ = ("self.logZ", "self._logZ", "self._weights", "self.log_evidence", "self._weights_lp", "self._weights_ns", "self.log_evidence_live_points", "self.log_evidence_nested_samples")
    n_exp_ = 0
    for f_ in ist_.methods.values():
        for c_ in walk_no_nested(f_.node):
            if not (isinstance(c_, ast.Call) and (call_name(c_) or "").split(".")[-1] in ("exp", "exp2", "expm1") and c_.args):
                continue
            try:
                form_ = _lf5(c_.args[0]) or {}
            except Exception:
                form_ = None
            if form_ is None:
                continue
            d_ = sum(v_ for k_, v_ in form_.items() if any(k_ == a_ or k_.startswith(a_ + "[") for a_ in deg1_))
            if d_ == 0:
                continue
            n_exp_ += 1
            wide_ = any(k_.arg == "dtype" and src(k_.value).split(".")[-1] in ("longdouble", "float128") for k_ in c_.keywords)
            ctx.ob("R-DEG", clause, f_, "an exponential of a quantity that moves with a likelihood offset is taken in extended precision (dtype=np.longdouble)", wide_, f"`{src(c_)[:70]}` (shift degree {d_})" + ("" if wide_ else ": overflows to inf above log Z ~ 709 and underflows to 0 below ~ -745 in float64"), node=c_)
    ctx.require(n_exp_ >= 2, f"only {n_exp_} absolute-scale exponentials found in _INSIntegralState (compute_uncertainty expected)")


def run(ctx):
    prog = ctx.prog
    res = resolver(prog)
    g, _ = callgraph(prog)

    # ---------------- standard sampler ----------------------------------
    lp = ctx.fn(NS + ".nested_sampling_loop")
    la = FA(lp)
    loops = [n for n in la.nodes() if n.kind == "while"]
    ctx.require(len(loops) == 1, "NestedSampler.nested_sampling_loop: expected one while loop")
    wl = loops[0]
    p = compare_parts(wl.ast.test)
    ctx.ob("R-DOM", "C15.2", lp, "standard sampler iterates while the remaining-evidence condition strictly exceeds the tolerance", canon(wl.ast.test) == cexpr("self.condition > self.tolerance"), f"`while {src(wl.ast.test)}`")
    body = la.cfg.loop_body(wl.id)
    cons = [nid for nid, c in la.find_calls("self.consume_sample") if nid in body]
    caps = [n for n in la.nodes() if n.kind == "if" and n.id in body and canon(n.ast.test) == cexpr("self.iteration >= self.max_iteration")]
    def _cycle_tests_cap(fa_, head, cap_nodes):
        """every way round the loop (head -> ... -> head) passes one of the cap tests"""
        g_ = fa_.cfg.g.copy()
        g_.remove_nodes_from([c_.id for c_ in cap_nodes])
        import networkx as _nx

        return bool(cap_nodes) and not any(_nx.has_path(g_, s_, head) for s_ in g_.successors(head) if s_ in fa_.cfg.loop_body(head)) if head in g_ else False

    # the cap may break directly, or only while the tolerance has not been reached (then the loop test ends the loop on the
    # same cycle): `if cap: break` or `if cap: if condition > tolerance: break`
    def _breaks(c_):
        for s_ in c_.ast.body:
            if isinstance(s_, ast.Break):
                return True
            if isinstance(s_, ast.If) and canon(s_.test) in (cexpr("self.condition > self.tolerance"),) and any(isinstance(b_, ast.Break) for b_ in s_.body):
                return True
        return False

    if not caps:
        caps = [n for n in la.nodes() if n.kind == "if" and n.id in body and any(canon(e_) == cexpr("self.iteration >= self.max_iteration") and t_ for e_, t_ in conjuncts(n.ast.test, True))
                and all(t_ and canon(e_) in (cexpr("self.iteration >= self.max_iteration"), cexpr("self.condition > self.tolerance")) for e_, t_ in conjuncts(n.ast.test, True))]
    okcap = len(caps) >= 1 and all(_breaks(c_) or any(isinstance(s, ast.Break) for s in c_.ast.body) for c_ in caps) and len(cons) == 1 and _cycle_tests_cap(la, wl.id, caps)
    ctx.ob("R-ORDER", "C15.2", lp, "the iteration cap is tested on every cycle of the loop and breaks it", okcap, "")
    # a run that stopped at the cap must not advance when it is run again: the cap has to be tested between the entry of the
    # function and the first consume_sample as well (loop guard, or a test that precedes consume_sample in the body)
    g2_ = la.cfg.g.copy()
    g2_.remove_nodes_from([c_.id for c_ in caps] + ([wl.id] if "max_iteration" in src(wl.ast.test) else []))
    import networkx as _nx2

    reenter = bool(cons) and la.cfg.entry in g2_ and cons[0] in g2_ and _nx2.has_path(g2_, la.cfg.entry, cons[0])
    ctx.ob("R-DOM", "C15.3", lp, "a run stopped by the iteration cap consumes nothing more when it is run again (the cap is tested before the first consume_sample of a re-entered loop)", not reenter, "path: entry -> while condition > tolerance -> consume_sample without a test of iteration >= max_iteration; the cap is only tested after the sample was consumed")
    ctx.ob("R-ORDER", "C15.2", lp, "exactly one consume_sample per loop iteration", len(cons) == 1 and not [h for h in la.cfg.loops_containing(cons[0]) if h.id != wl.id], "")
    # condition provenance
    for f, n, kind in attr_stores(prog, "condition"):
        if f.cls is not None and prog.cls(NS) in prog.mro(f.cls):
            ctx.ob("R-PROV", "C15.1", f, "the stopping condition is assigned only in the constructor and in consume_sample", f.name in ("__init__", "consume_sample"), f"`{src(n)}`", node=n)
    cs = ctx.fn(NS + ".consume_sample")
    ca = FA(cs)
    cond = ca.find(lambda s: isinstance(s, ast.Assign) and any(is_self_attr(t, "condition") for t in s.targets))
    inc = ca.find_calls("self.state.increment")
    ctx.require(len(cond) == 1 and len(inc) == 1, "consume_sample: condition assignment / state.increment not found")
    lf = linform(ca.stmt(cond[0]).value)
    okf = lin_eq(lf, {"logaddexp(self.logLmax - self.iteration / self.nlive, self.state.logZ)": 1, "self.state.logZ": -1})
    ctx.ob("R-SIB", "C15.1", cs, "condition = log(Z + Lmax X_i) - log Z with X_i = exp(-iteration / nlive), from the evidence state", okf, f"{({k: str(v) for k, v in lf.items()})}")
    ctx.ob("R-ORDER", "C15.1", cs, "condition is recomputed once per iteration, after the removed point was integrated", ca.dominates(inc[0][0], cond[0]) and ca.once(cond[0]) and ca.on_every_normal_path(cond[0]), "")
    uh = ctx.fn(NS + ".update_history")
    app = [c for c in walk_no_nested(uh.node) if isinstance(c, ast.Call) and src(c.func) == "self.history['dlogZ'].append"]
    ctx.ob("R-PROV", "C15.1", uh, "the run history records the very attribute the loop compares (history['dlogZ'] <- self.condition)", len(app) == 1 and src(app[0].args[0]) == "self.condition", f"`{src(app[0]) if app else None}`")
    for f, n, kind in attr_stores(prog, "tolerance"):
        if f.cls is not None and prog.cls(NS) in prog.mro(f.cls) and prog.cls(INS) not in prog.mro(f.cls):
            ctx.ob("R-PROV", "C15.1", f, "tolerance of the standard sampler is fixed at construction", f.name == "__init__", f"`{src(n)}`", node=n)

    # idempotence (standard sampler)
    first = _first_stmt(lp.node)
    okfirst = isinstance(first, ast.If) and canon(first.test) == "self.finalised" and isinstance(first.body[-1], ast.Return)
    ctx.ob("R-DOM", "C15.3", lp, "a finished standard run returns its stored results immediately (first statement: if self.finalised: return ...)", okfirst, f"`{src(first)[:80]}`")
    if okfirst:
        r = first.body[-1].value
        ctx.ob("R-PROV", "C15.3", lp, "the short-circuit returns the stored evidence and nested samples", canon(r) == "(self.log_evidence, array(self.nested_samples))", f"`{src(r)}`")
    fins = la.find_calls("self.finalise")
    for nid, c in fins:
        facts = [(canon(e), t) for e, t in guard_facts(la, nid)]
        ok = ("self.finalised", False) in facts or ("self.prior_sampling", True) in facts
        ctx.ob("R-DOM", "C15.3", lp, "finalise() is reached only when the run is not already finalised", ok, f"guards {facts}")
        if ("self.prior_sampling", True) not in facts:
            from ..q import holds as _holds153

            ctx.ob("R-DOM", "C15.3", lp, "after the loop the live points are consumed only if the tolerance was reached (not when cut short by the cap)", ("self.condition <= self.tolerance", True) in facts or _holds153(guard_facts(la, nid), "self.condition <= self.tolerance", True) or _holds153(guard_facts(la, nid), "self.condition > self.tolerance", False), f"guards {facts}")
    # ... and conversely: however the loop is left, a run whose tolerance has been reached is finalised before the function
    # returns.  The loop is abstracted by its exits - the normal exit (test false, then the `else:` clause if there is one)
    # and every `break` (with the facts its own guards give) - and the statements after it are summarised path by path: a
    # returning path either calls finalise() or carries a fact that excludes "tolerance reached and not yet finalised".
    from ..summ import summarise as _summ153
    from ..q import holds as _h153
    import copy as _cp153

    wst = wl.ast
    def _after(stmts_, target_):
        for i_, s_ in enumerate(stmts_):
            if s_ is target_:
                return stmts_[i_ + 1:]
            for fld_ in ("body", "orelse", "finalbody"):
                sub_ = getattr(s_, fld_, None)
                if isinstance(sub_, list) and any(x_ is target_ for b_ in sub_ for x_ in ast.walk(b_)):
                    r_ = _after(sub_, target_)
                    return (r_ or []) + stmts_[i_ + 1:]
        return None

    post_ = _after(lp.node.body, wst) or []
    scenarios = [("the loop test fails", [(_cp153.deepcopy(wst.test), False)], list(wst.orelse))]
    for bn_ in [n_ for n_ in la.nodes() if n_.kind == "stmt" and isinstance(n_.ast, ast.Break) and n_.id in body]:
        inner_ = [(e_, t_) for e_, t_ in guard_facts(la, bn_.id) if any(x_ is e_ or any(y_ is e_ for y_ in ast.walk(x_)) for s_ in wst.body for x_ in ast.walk(s_) if isinstance(x_, (ast.If,)) for x_ in [x_.test])]
        scenarios.append((f"break at line {getattr(bn_.ast, '_orig_lineno', bn_.ast.lineno)}", [(_cp153.deepcopy(e_), t_) for e_, t_ in inner_], []))
    for label_, facts0_, first_ in scenarios:
        fn_ = ast.FunctionDef(name="abstract", args=ast.arguments(posonlyargs=[], args=[ast.arg(arg="self")], kwonlyargs=[], kw_defaults=[], defaults=[]), body=[_cp153.deepcopy(s_) for s_ in first_ + post_] or [ast.Pass()], decorator_list=[], type_params=[])
        ast.fix_missing_locations(fn_)
        bad_ = []
        for pa_ in _summ153(fn_):
            if pa_.end == "raise":
                continue
            gl_ = facts0_ + list(pa_.guards)
            calls_fin = any(e_[0] == "call" and canon(e_[1].func) == "self.finalise" for e_ in pa_.effects)
            EXC_ = (("self.condition > self.tolerance", True), ("self.condition <= self.tolerance", False), ("self.finalised", True), ("self.prior_sampling", True))
            excused = any(_h153(gl_, t_, v_) for t_, v_ in EXC_)
            # a failed conjunction all of whose conjuncts, when false, are such a fact (`not (not finalised and tolerance reached)`)
            for e_, t_ in gl_:
                if t_ is False and isinstance(e_, ast.BoolOp) and isinstance(e_.op, ast.And) and all(any(_h153([(v_, False)], tx_, vx_) for tx_, vx_ in EXC_) for v_ in e_.values):
                    excused = True
                if t_ is True and isinstance(e_, ast.BoolOp) and isinstance(e_.op, ast.Or) and all(any(_h153([(v_, True)], tx_, vx_) for tx_, vx_ in EXC_) for v_ in e_.values):
                    excused = True
            if not (calls_fin or excused):
                bad_.append([(canon(e_)[:40], t_) for e_, t_ in gl_])
        ctx.ob("R-DOM", "C15.3", lp, f"leaving the loop because {label_.split(' at line')[0]}: a run that has reached its tolerance is finalised before the function returns", not bad_, f"{label_}: path(s) that return without finalise() although the tolerance may have been reached: {bad_[:2]}")
    nf = ctx.fn(NS + ".finalise")
    nfa = FA(nf)
    fl = nfa.find(lambda s: isinstance(s, ast.Assign) and any(is_self_attr(t, "finalised") for t in s.targets) and const(s.value, True))
    ctx.ob("R-ORDER", "C15.3", nf, "finalise() sets finalised = True on every normal path", len(fl) == 1 and nfa.on_every_normal_path(fl[0]), "")
    # between consuming the live points and finalised = True the pickled state is inconsistent (live points gone, run not
    # marked finished): nothing in that stretch may be able to write a checkpoint, or a resume re-draws and re-consumes them
    consume_ = nfa.find(lambda s_: isinstance(s_, ast.Assign) and any(is_self_attr(t_, "live_points") for t_ in s_.targets)) + [nid for nid, c_ in nfa.find_calls("self.nested_samples.append")]
    window_calls = _checkpoint_in_window(prog, res, g, nf, nfa, min(consume_), fl[0]) if fl and consume_ else []
    ctx.ob("R-INT", "C15.3", nf, "no call that can write a checkpoint runs between the consumption of the live points and finalised = True (live points are consumed exactly once across a resume)", bool(fl) and bool(consume_) and not window_calls, f"can reach checkpoint(): {sorted(set(window_calls))}")
    ni = ctx.fn(NS + ".initialise")
    nia = FA(ni)
    pops = nia.find_calls("self.populate_live_points")
    okp = len(pops) == 1 and ("self.finalised", False) in [(canon(e), t) for e, t in guard_facts(nia, pops[0][0])]
    ctx.ob("R-DOM", "C15.3", ni, "initialise() never redraws live points for a finalised run", okp, "")
    # finalise() consumes the live points (live_points = None): a finished run may only be un-finalised where live points
    # are drawn again in the same step, otherwise the next consume_sample / finalise iterates over None
    for f_, n_, kind_ in attr_stores(prog, "finalised"):
        if f_.cls is None or prog.cls(NS) not in prog.mro(f_.cls) or kind_ != "assign":
            continue
        fa_u = FA(f_)
        st_ = n_ if isinstance(n_, ast.Assign) else fa_u.cfg.stmt_of(n_)
        val_ = st_.value if isinstance(st_, ast.Assign) else None
        if val_ is not None and const(val_, False) and f_.name != "__init__":
            sid = fa_u.cfg.id_of(st_)
            redraw = [nid for nid, c_ in fa_u.find_calls("self.populate_live_points") if fa_u.cfg.can_follow(sid, nid)]
            ctx.ob("R-ORDER", "C15.3", f_, "a finished run is un-finalised (finalised = False) only where its live points are drawn again afterwards", bool(redraw), f"`{src(st_)}` under {[(canon(e), t) for e, t in guard_facts(fa_u, sid)]}; populate_live_points does not follow it", node=st_)
    # no likelihood evaluation reachable before the finalised guard
    ev = {prog.fn(tables.MODEL + ".evaluate_log_likelihood").qual, prog.fn(tables.MODEL + ".batch_evaluate_log_likelihood").qual}
    ctx.ob("R-DOM", "C15.3", lp, "nothing executes before the finalised guard (no likelihood evaluation can precede it)", lp.node.body[0] is first or (isinstance(lp.node.body[0], ast.Expr) and lp.node.body[1] is first), "")

    # ---------------- importance sampler -----------------------------------
    il = ctx.fn(INS + ".nested_sampling_loop")
    ila = FA(il)
    wl2 = [n for n in ila.nodes() if n.kind == "while"]
    ctx.require(len(wl2) == 1, "ImportanceNestedSampler.nested_sampling_loop: main loop not found")
    # the program model writes `while True: if c: break; B` as `while not c: B`; either way the loop is left, before
    # anything else of the iteration runs, exactly when `reached_tolerance and iteration >= min_iteration`
    fb = wl2[0].ast.test
    stop = conjuncts(fb, False)
    okb = all(t for e, t in stop) and sorted(canon(e) for e, t in stop) == sorted([cexpr("self.iteration >= self.min_iteration"), "self.reached_tolerance"])
    ctx.ob("R-ORDER", "C15.2", il, "importance sampler tests `reached_tolerance and iteration >= min_iteration` first in every iteration and breaks", okb, f"`{src(fb)[:90]}`")
    caps2 = [n for n in ila.nodes() if n.kind == "if" and n.id in ila.cfg.loop_body(wl2[0].id) and canon(n.ast.test) == cexpr("self.iteration >= self.max_iteration") and any(isinstance(s_, ast.Break) for s_ in n.ast.body)]
    ctx.ob("R-ORDER", "C15.2", il, "iteration cap is tested on every cycle of the loop and breaks", _cycle_tests_cap(ila, wl2[0].id, caps2), f"{len(caps2)} cap tests")
    crit = ila.find(lambda s: isinstance(s, ast.Assign) and any(is_self_attr(t, "criterion") for t in s.targets))
    upd = ila.find_calls("self.update_evidence")
    hist = ila.find_calls("self.update_history")
    itinc = ila.find(lambda s: isinstance(s, ast.AugAssign) and is_self_attr(s.target, "iteration"))
    okc = len(crit) == 1 and len(upd) == 1 and len(hist) == 1 and len(itinc) == 1 and canon(ila.stmt(crit[0]).value) == "self.compute_stopping_criterion()" and ila.dominates(upd[0][0], crit[0]) and ila.dominates(crit[0], hist[0][0]) and ila.dominates(hist[0][0], itinc[0])
    ctx.ob("R-ORDER", "C15.1", il, "per iteration: update_evidence -> criterion := compute_stopping_criterion() -> update_history -> iteration += 1", okc, "")
    for f, n, kind in attr_stores(prog, "criterion"):
        if f.cls is prog.cls(INS):
            ctx.ob("R-PROV", "C15.1", f, "criterion is written only by the constructor/configuration (inf) and the loop", f.name in ("__init__", "configure_stopping_criterion", "nested_sampling_loop"), f"`{src(n)}`", node=n)
    rt = prog.cls(INS).methods["reached_tolerance"]
    rets = [n for n in walk_no_nested(rt.node) if isinstance(n, ast.Return)]
    from ..pat import match_expr as _me, find_stmt as _fs
    got = {}
    rta = FA(rt)
    inl_rt = single_assignments(rt.node)

    def _pairwise(e_):
        """e_ is [<test of c against t> for ... in zip(..self.criterion.., ..self.tolerance..)] - every criterion is
        compared with its own tolerance (the direction per criterion is decided under C20.3)"""
        if isinstance(e_, ast.Name) and e_.id in inl_rt:
            e_ = inl_rt[e_.id]
        if not (isinstance(e_, (ast.ListComp, ast.GeneratorExp)) and len(e_.generators) == 1):
            return False
        gen_ = e_.generators[0]
        if not (isinstance(gen_.iter, ast.Call) and src(gen_.iter.func) == "zip" and isinstance(gen_.target, ast.Tuple) and not gen_.ifs):
            return False
        srcs_ = [src(a_) for a_ in gen_.iter.args]
        tv_ = [x_.id if isinstance(x_, ast.Name) else None for x_ in gen_.target.elts]
        if "self.criterion" not in srcs_ or "self.tolerance" not in srcs_ or len(tv_) != len(srcs_):
            return False
        cv_, tl_ = tv_[srcs_.index("self.criterion")], tv_[srcs_.index("self.tolerance")]
        cmps_ = [n_ for n_ in ast.walk(e_.elt) if isinstance(n_, ast.Compare)]
        pair_ = [n_ for n_ in cmps_ if len(n_.ops) == 1 and isinstance(n_.ops[0], (ast.Lt, ast.LtE, ast.Gt, ast.GtE)) and {src(n_.left), src(n_.comparators[0])} == {cv_, tl_}]
        # "meets" is non-strict: a criterion exactly at its tolerance stops the run (the default tolerance is 0.0)
        return bool(pair_) and len(pair_) == len(cmps_) - sum(1 for n_ in cmps_ if isinstance(n_.ops[0], (ast.Eq, ast.NotEq, ast.In, ast.NotIn))) and all(isinstance(n_.ops[0], (ast.LtE, ast.GtE)) for n_ in pair_) and isinstance(e_.elt, (ast.Compare, ast.IfExp))

    for r in rets:
        facts = [(canon(e), t) for e, t in guard_facts(rta, rta.cfg.id_of(r))]
        v_ = r.value
        if isinstance(v_, ast.Call) and isinstance(v_.func, ast.Name) and v_.func.id in ("any", "all") and len(v_.args) == 1 and _pairwise(v_.args[0]):
            got[v_.func.id] = facts
    want_any, want_all = "any", "all"
    ok_rt = want_any in got and ("self._stop_any", True) in got[want_any] and want_all in got and ("self._stop_any", False) in got[want_all] and len(rets) == 2
    ctx.ob("R-SIB", "C15.1", rt, "criteria meet their tolerances (each compared with its own tolerance, pairwise) combined by any iff check_criteria == 'any', else all", ok_rt, f"{list(got)}")
    conf = ctx.fn(INS + ".configure_stopping_criterion")
    sa_ = ifs_on(conf.node, "check_criteria == 'any'")
    stores_ = [n for n in walk_no_nested(conf.node) if isinstance(n, ast.Assign) and src(n.targets[0]) == "self._stop_any"]
    oks = (len(sa_) == 1 and len(stores_) == 2 and len(sa_[0][1]) == 1 and len(sa_[0][2]) == 1 and canon(sa_[0][1][0]) == "self._stop_any = True" and canon(sa_[0][2][0]) == "self._stop_any = False") \
        or (len(stores_) == 1 and canon(stores_[0].value) == "check_criteria == 'any'")
    ctx.ob("R-SIB", "C15.1", conf, "_stop_any is True exactly for check_criteria == 'any'", oks, "")
    criteria_pairing(ctx, conf, "C15.1")
    csc = ctx.fn(INS + ".compute_stopping_criterion")
    rr = [n for n in walk_no_nested(csc.node) if isinstance(n, ast.Return)]
    inl = single_assignments(csc.node)
    okr = len(rr) == 1 and _me("[getattr(self, $$s) for $$s in self.stopping_criterion]", rr[0].value, inline=inl) is not None
    ctx.ob("R-PROV", "C15.1", csc, "the compared list is [getattr(self, name) for name in the configured criteria], in the order of the tolerances", okr, f"`{src(rr[0].value) if rr else None}`")
    uh2 = ctx.fn(INS + ".update_history")
    okh = len(_fs("for $$k in self.stopping_criterion_aliases.keys():\n    self.history['stopping_criteria'][$$k].append(getattr(self, $$k, nan))", uh2.node)) == 1
    ctx.ob("R-PROV", "C15.1", uh2, "the run history records the same attributes by the same names (getattr(self, k))", okh, "")
    # criterion definitions: the final value of every criterion attribute on every path through the function, compared
    # with a reference implementation (temporaries, a record dict copied onto the attributes, either spelling of the
    # first-iteration branch all give the same path signatures)
    from ..summ import signatures as _sigs_

    CRIT = ("log_dZ", "ratio", "ratio_ns", "ess", "Z_err", "fractional_error")
    REF_C = (
        "def ref(self):\n"
        "    if self.iteration > 0:\n"
        "        self.log_dZ = np.abs(self.log_evidence - self.history['logZ'][-1])\n"
        "    else:\n"
        "        self.log_dZ = np.inf\n"
        "    self.ratio = self._ordered_samples.compute_evidence_ratio()\n"
        "    self.ratio_ns = self.state.compute_evidence_ratio(ns_only=True)\n"
        "    self.ess = self.state.effective_n_posterior_samples\n"
        "    self.Z_err = np.exp(self.log_evidence_error)\n"
        "    self.fractional_error = self.state.evidence_error / self.state.evidence\n"
    )
    track_ = tuple("self." + k for k in CRIT)
    proj_ = lambda sigs_: {(s_[0], s_[1]) for s_ in sigs_}
    try:
        ref_c = proj_(_sigs_(ast.parse(REF_C).body[0], canon, track=track_))
        code_c = proj_(_sigs_(csc.node, canon, track=track_))
    except ValueError as e_:
        raise AnalysisError(f"compute_stopping_criterion: {e_} (ANALYSIS-INCOMPLETE)")
    want = {"ratio": "self._ordered_samples.compute_evidence_ratio()", "ratio_ns": "self.state.compute_evidence_ratio(ns_only=True)", "ess": "self.state.effective_n_posterior_samples", "Z_err": "exp(self.log_evidence_error)", "fractional_error": "self.state.evidence_error / self.state.evidence"}
    for k, v in want.items():
        i_ = CRIT.index(k)
        got_ = {s_[1][i_][1] for s_ in code_c}
        ctx.ob("R-SIB", "C15.4", csc, f"criterion `{k}` = {v}", got_ == {s_[1][i_][1] for s_ in ref_c}, f"`{sorted(map(str, got_))}`")
    i_ = 0
    got_ = {(tuple(sorted(s_[0])), s_[1][i_][1]) for s_ in code_c}
    ref_ = {(tuple(sorted(s_[0])), s_[1][i_][1]) for s_ in ref_c}
    ctx.ob("R-SIB", "C15.4", csc, "criterion `log_dZ` = |log Z - previous recorded log Z| (inf at the first iteration)", got_ == ref_, f"{sorted(got_)}")
    # ... and the "previous recorded log Z" is the same quantity one iteration earlier: what update_history appends to
    # history['logZ'] is the run's own log-evidence (self.state.logZ, directly or through the log_evidence property)
    le_ = prog.find_method(prog.cls(INS), "log_evidence")  # the sampler's own property or one inherited from the base class
    le_ok = le_ is not None and [canon(n.value) for n in walk_no_nested(le_.node) if isinstance(n, ast.Return)] in (["self.state.logZ"], ["self.state.log_evidence"])
    rec_ = [(m_, c_) for m_ in prog.cls(INS).methods.values() for c_ in walk_no_nested(m_.node) if isinstance(c_, ast.Call) and isinstance(c_.func, ast.Attribute) and c_.func.attr in ("append", "extend", "insert") and canon(c_.func.value) == "self.history['logZ']"]
    okrec = len(rec_) == 1 and rec_[0][0].name == "update_history" and rec_[0][1].func.attr == "append" and len(rec_[0][1].args) == 1 and canon(rec_[0][1].args[0]) in ("self.state.logZ", "self.log_evidence") and le_ok
    ctx.ob("R-SIB", "C15.4", uh2, "the log Z recorded in the history (the `previous log Z` of log_dZ) is the run's own log-evidence self.state.logZ", okrec, f"{[(m_.name, src(c_)[:80]) for m_, c_ in rec_]}")
    er = prog.cls("nessai.evidence:_INSIntegralState").methods["compute_evidence_ratio"]
    # read from the path summaries: what is returned when ns_only holds and when it does not
    from ..summ import summarise as _summ15, guard_texts as _gt15
    rv_ = {}
    for pa_ in _summ15(er.node):
        if pa_.end == "return" and pa_.ret is not None:
            rv_[dict(_gt15(pa_, canon)).get("ns_only")] = canon(pa_.ret)
    ctx.ob("R-SIB", "C15.4", er, "evidence ratio = log Z(live points) - log Z (or - log Z(nested samples) when ns_only)", rv_ == {True: "self.log_evidence_live_points - self.log_evidence_nested_samples", False: "self.log_evidence_live_points - self.logZ"}, f"{rv_}")
    oer = prog.cls(tables.OS_).methods["compute_evidence_ratio"]
    inl = single_assignments(oer.node)
    rr = [n for n in walk_no_nested(oer.node) if isinstance(n, ast.Return)]
    okoe = len(rr) == 1 and canon(rr[0].value, inline=inl) == cexpr("log_evidence_from_ins_samples(self.samples[self.samples['logL'] >= threshold]) - self.state.log_evidence")
    ctx.ob("R-SIB", "C15.4", oer, "sample-store evidence ratio = log Z(samples at/above the threshold) - log Z", okoe, f"`{canon(rr[0].value, inline=inl) if rr else None}`")

    # idempotence (importance sampler)
    first = _first_stmt(il.node)
    okfirst = isinstance(first, ast.If) and canon(first.test) == "self.finalised" and isinstance(first.body[-1], ast.Return)
    ctx.ob("R-DOM", "C15.3", il, "a finished importance run returns its stored results immediately", okfirst, f"`{src(first)[:80]}`")
    # running again returns what the run returned: every return of a loop hands back the same expression
    for lp_ in (lp, il):
        rv_ = sorted({canon(_expand_props(prog, lp_.cls, r_.value)) for r_ in walk_no_nested(lp_.node) if isinstance(r_, ast.Return) and r_.value is not None})
        ctx.ob("R-PROV", "C15.3", lp_, "every return of nested_sampling_loop (finished-run short-circuit included) hands back the same quantities", len(rv_) == 1, f"{rv_}")
    inf = ctx.fn(INS + ".finalise")
    ifa = FA(inf)
    first = _first_stmt(inf.node)
    ctx.ob("R-DOM", "C15.3", inf, "INS finalise() returns early when already finalised", isinstance(first, ast.If) and canon(first.test) == "self.finalised" and isinstance(first.body[-1], ast.Return), "")
    fl = ifa.find(lambda s: isinstance(s, ast.Assign) and any(is_self_attr(t, "finalised") for t in s.targets) and const(s.value, True))
    tfin = ifa.find_calls("self.training_samples.finalise")
    wc_ = _checkpoint_in_window(prog, res, g, inf, ifa, tfin[0][0], fl[0]) if len(fl) == 1 and len(tfin) == 1 else ["?"]
    ctx.ob("R-INT", "C15.3", inf, "INS: no call that can write a checkpoint runs between the consumption of the live points and finalised = True", not wc_, f"can reach checkpoint(): {wc_}")
    ctx.ob("R-ORDER", "C15.3", inf, "INS finalise() consumes the remaining live points, then sets finalised = True, on every non-short-circuit path", len(fl) == 1 and len(tfin) == 1 and ifa.dominates(tfin[0][0], fl[0]) and ifa.cfg.every_exit_path_passes(tfin[0][0], [fl[0]]), "")
    osf = prog.cls(tables.OS_).methods["finalise"]
    oa = FA(osf)
    a1 = oa.find_calls("self.add_to_nested_samples")
    okos = len(a1) == 1 and canon(a1[0][1].args[0]) == "self.live_points_indices" and oa.once(a1[0][0])
    nul = oa.find(lambda s: isinstance(s, ast.Assign) and canon(s) == "self.live_points = None")
    ctx.ob("R-ORDER", "C15.3", osf, "sample store: every remaining live index is moved to the dead set exactly once, then the live set is emptied", okos and len(nul) == 1 and oa.dominates(a1[0][0], nul[0]), "")
    # ---- C15.5 evidence-error criteria survive a constant factor in the likelihood ---------------------------------
    # log Z, the log-weights and anything linear in them move with a likelihood offset (shift degree 1); the state
    # leaves log space to form the standard error sum((Z_i - Z)^2), and only the extended exponent range of
    # np.longdouble keeps that finite (and the ratio u / Z, which is offset-free, exact) for |log Z| beyond ~700.
    # Every exponential of a degree-1 quantity in _INSIntegralState therefore carries dtype=np.longdouble.
    wide_exp_rule(ctx, "C15.5")
    ctx.floor("C15.5", 2)
    # the `ess` criterion equals its standard definition: every ESS implementation (overrides of the state's property
    # included) is the log-space Kish form - shared with C16.3
    from .C16 import ess_rule as _ess_rule
    _ess_rule(ctx, "C15.4")
    ctx.floor("C15.1", 10)
    ctx.floor("C15.2", 5)
    ctx.floor("C15.3", 10)
    ctx.floor("C15.4", 8)
    ctx.assumptions += ["a loop that evaluates its test every iteration stops at the first iteration where the test fails: trajectories themselves are not explored"]


def _first_stmt(fnode):
    body = fnode.body
    if body and isinstance(body[0], ast.Expr) and isinstance(body[0].value, ast.Constant):
        return body[1] if len(body) > 1 else None
    return body[0] if body else None



def _expand_props(prog, cls, e, depth=0):
    """`self.<p>` replaced by the returned expression of property p when its getter is a single `return <expr>`
    (so `self.log_evidence` and `self.state.logZ` are one quantity)."""
    import copy as _copy
    if depth > 4 or cls is None:
        return e

    class X(ast.NodeTransformer):
        def visit_Attribute(self, n):
            self.generic_visit(n)
            if isinstance(n.value, ast.Name) and n.value.id == "self" and isinstance(n.ctx, ast.Load):
                g = prog.find_method(cls, n.attr)
                if g is not None and g.is_property and not g.is_setter:
                    body = [s for s in g.node.body if not (isinstance(s, ast.Expr) and isinstance(s.value, ast.Constant))]
                    if len(body) == 1 and isinstance(body[0], ast.Return) and body[0].value is not None:
                        return _expand_props(prog, cls, _copy.deepcopy(body[0].value), depth + 1)
            return n

    return X().visit(_copy.deepcopy(e))

CLAIM = {
    "text": "Decides that the value compared by each loop is the value recorded in the history and comes from the evidence state of the same iteration (standard: condition assigned only in consume_sample after state.increment with the documented form, appended to history['dlogZ']; importance: criterion := compute_stopping_criterion() after update_evidence and before update_history, list built by getattr over the configured criteria, history recorded by the same names); that the loop guards are the documented ones (while condition > tolerance strict, cap tested last; INS break test `reached_tolerance and iteration >= min_iteration` first, cap last; c <= t combined by any iff check_criteria=='any' else all); that finished runs short-circuit (first statement of both loops, finalise guarded / early-returning, finalised set on every path, no repopulation when finalised, remaining live points moved exactly once); and that each INS criterion is the documented expression (ratio, ratio_ns, ess, Z_err, fractional_error, log_dZ, evidence ratios). Criteria and tolerances are paired by position: the criteria are stored in the caller's order (outermost iteration over the caller's list), tolerances element-wise, count mismatch rejected. Every effective-sample-size implementation in the package (overrides included) is the log-space Kish form or a pure delegation (with C16.3); every exponential of a shift-degree-1 quantity in the INS integral state is taken in np.longdouble (C15.5; found and repaired the float64 evidence behind fractional_error); every return of a nested_sampling_loop hands back the same quantities (found and repaired the INS short-circuit). However the standard loop is left (test false, else clause, any break), a run whose tolerance has been reached is finalised before the function returns (C15.3).",
    "note": "Trajectories are not explored: 'stops at the first qualifying iteration' follows from the guard being evaluated every iteration, which is what is checked. Zero further likelihood evaluations on re-entry is decided as 'the finalised guard is the first statement'.",
}

_N = "nessai/samplers/nestedsampler.py"
_I = "nessai/samplers/importancesampler.py"
MUTANTS = [
    {"id": "ins-checkpoint-inside-finalise", "file": _I, "old": "        self.finalised = True\n        self.checkpoint(periodic=True, force=True)", "new": "        self.checkpoint(periodic=True, force=True)\n        self.finalised = True", "expect": "INS: no call that can write a checkpoint"},
    {"id": "ins-history-records-other-evidence", "file": _I, "old": '        self.history["logZ"].append(self.state.logZ)', "new": '        self.history["logZ"].append(self.training_samples.state.logZ)', "expect": "recorded in the history"},
    {"id": "ins-criteria-in-alias-table-order", "file": _I, "old": "        for c in stopping_criterion:\n            for criterion, aliases in self.stopping_criterion_aliases.items():\n                if c in aliases:\n                    self.stopping_criterion.append(criterion)\n", "new": "        for criterion, aliases in self.stopping_criterion_aliases.items():\n            for c in stopping_criterion:\n                if c in aliases:\n                    self.stopping_criterion.append(criterion)\n", "expect": "stored in the order the caller listed them"},
    {"id": "ins-tolerances-sorted", "file": _I, "old": "            self.tolerance = [float(t) for t in tolerance]\n", "new": "            self.tolerance = sorted(float(t) for t in tolerance)\n", "expect": "tolerances are stored in the caller's order"},
    {"id": "ns-loop-ge", "file": _N, "old": "        while self.condition > self.tolerance:\n", "new": "        while self.condition >= self.tolerance:\n", "expect": "strictly exceeds"},
    {"id": "ns-cap-only-sometimes", "file": _N, "old": "            if self.iteration >= self.max_iteration:\n                logger.info(\"Reached max iteration\")\n                break\n", "new": "            if self.checkpointing:\n                if self.iteration >= self.max_iteration:\n                    logger.info(\"Reached max iteration\")\n                    break\n", "expect": "tested on every cycle"},
    {"id": "ns-history-records-other-value", "file": _N, "old": '        self.history["dlogZ"].append(self.condition)', "new": '        self.history["dlogZ"].append(self.condition - self.tolerance)', "expect": "history records the very attribute"},
    {"id": "ns-condition-before-increment", "file": _N, "edits": [(_N, "        self.state.increment(worst[\"logL\"])\n        self.nested_samples.append(worst)\n\n        self.condition = (", "        self.condition = ("), (_N, "            - self.state.logZ\n        )\n\n        # Replace the points", "            - self.state.logZ\n        )\n        self.state.increment(worst[\"logL\"])\n        self.nested_samples.append(worst)\n\n        # Replace the points")], "expect": "after the removed point was integrated"},
    {"id": "ns-condition-formula", "file": _N, "old": "                self.logLmax - self.iteration / float(self.nlive),", "new": "                self.logLmax - self.iteration / float(self.nlive + 1),", "expect": "condition = log(Z + Lmax X_i)"},
    {"id": "ns-finalise-when-capped", "file": _N, "old": "        if not self.finalised and (self.condition <= self.tolerance):\n            self.finalise()", "new": "        if not self.finalised:\n            self.finalise()", "expect": "only if the tolerance was reached"},
    {"id": "ns-no-short-circuit", "file": _N, "old": "        if self.finalised:\n            logger.info(\"Run has already finished!\")\n            return self.log_evidence, np.array(self.nested_samples)\n", "new": "        if self.finalised:\n            logger.info(\"Run has already finished!\")\n", "expect": "returns its stored results immediately"},
    {"id": "ns-repopulate-finalised", "file": _N, "old": "        if live_points and self.live_points is None and not self.finalised:", "new": "        if live_points and self.live_points is None:", "expect": "never redraws live points"},
    {"id": "ins-min-iteration-ignored", "file": _I, "old": "            if self.reached_tolerance and self.iteration >= self.min_iteration:", "new": "            if self.reached_tolerance:", "expect": "tests `reached_tolerance and iteration >= min_iteration`"},
    {"id": "ins-any-all-swapped", "file": _I, "old": '        if check_criteria == "any":\n            self._stop_any = True\n        else:\n            self._stop_any = False', "new": '        if check_criteria == "any":\n            self._stop_any = False\n        else:\n            self._stop_any = True', "expect": "_stop_any is True exactly"},
    {"id": "ins-strict-tolerance", "file": _I, "old": "            return any(\n                [c <= t for c, t in zip(self.criterion, self.tolerance)]\n            )", "new": "            return any(\n                [c < t for c, t in zip(self.criterion, self.tolerance)]\n            )", "expect": "criteria meet their tolerances"},
    {"id": "ins-criterion-before-evidence", "file": _I, "edits": [(_I, "            self.criterion = self.compute_stopping_criterion()\n\n            self.log_state()", "            self.log_state()"), (_I, "            self.add_and_update_points(n_add)\n\n            self.update_evidence()\n", "            self.add_and_update_points(n_add)\n\n            self.criterion = self.compute_stopping_criterion()\n            self.update_evidence()\n")], "expect": "update_evidence -> criterion"},
    {"id": "ins-zerr-definition", "file": _I, "old": "        self.Z_err = np.exp(self.log_evidence_error)", "new": "        self.Z_err = self.log_evidence_error", "expect": "criterion `Z_err`"},
    {"id": "ins-ratio-uses-nested-only", "file": "nessai/evidence.py", "old": "            return self.log_evidence_live_points - self.logZ", "new": "            return self.log_evidence_live_points - self.log_evidence_nested_samples", "expect": "evidence ratio ="},
    {"id": "ins-finalise-twice", "file": _I, "old": "        if self.finalised:\n            logger.warning(\"Sampler already finalised\")\n            return\n", "new": "        if self.finalised:\n            logger.warning(\"Sampler already finalised\")\n", "expect": "returns early when already finalised"},
]
