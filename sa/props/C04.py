"""C04 - INS sample store stays sorted, partitioned and aligned under all updates (discipline only)."""

import ast

from .. import tables
from ..canon import canon, cexpr, single_assignments
from ..pat import find_expr, find_stmt, match_expr, match_stmt
from ..pm import src
from ..q import FA, attr_stores, call_name, guard_facts, ifs_on, is_self_attr, walk_no_nested
from ..rules import api, pair

TECHNIQUE = "R-PAIR twin operations on (samples, log_q), R-WRITERS monotone-store rule, R-ORDER co-update of the two index sets on every path, sortedness-preserving idioms (searchsorted + insert), R-API on the anchored modules, R-ARGMAX contradiction rule with a positive fixture; setter purity (R-WRITERS); R-NONNULL index rule with an initialiser typestate"

OS_ = tables.OS_
MODS = ("nessai.samplers.importancesampler", "nessai.utils.structures")

ARGMAX_FIXTURE = "def f(x, t):\n    n = np.argmax(x['logL'] >= t)\n    return x[:n]\n"


def argmax_sites(tree):
    return [n for n in ast.walk(tree) if isinstance(n, ast.Call) and call_name(n) in ("np.argmax", "numpy.argmax") and n.args and isinstance(n.args[0], ast.Compare)]


def twin_operations(ctx, clause):
    """samples and their density rows are sorted by one argsort and inserted at the same positions (shared with C03.4:
    a density row that is detached from its sample is also a wrong stored density)."""
    prog = ctx.prog
    c = prog.cls(OS_)
    m = {k: v for k, v in c.methods.items()}
    # ---- C04.1 twin operations on samples / log_q --------------------------------
    ss = m["sort_samples"]
    ok = len(find_stmt("$$i = argsort(samples, order='logL')", ss.node)) == 1 and (len(find_stmt("return get_subset_arrays($$i, samples, *args)", ss.node)) == 1 or len(find_stmt("return tuple($$a[$$i] for $$a in (samples, *args))", ss.node)) == 1) and len(find_stmt("return samples[$$i]", ss.node)) == 1
    ctx.ob("R-PAIR", clause, ss, "sorting applies one argsort (by logL) to the samples and to every companion array", ok, "")
    gs = ctx.fn("nessai.utils.structures:get_subset_arrays")
    ctx.ob("R-PAIR", clause, gs, "get_subset_arrays indexes every array with the same index object", len(find_stmt("return tuple($$a[indices] for $$a in args)", gs.node)) == 1, "")
    ai = m["add_initial_samples"]
    ctx.ob("R-PAIR", clause, ai, "initial insertion stores the jointly sorted samples and density rows", len(find_stmt("self.samples, self.log_q = self.sort_samples(samples, log_q)", ai.node)) == 1 and len(find_stmt("self.live_points_indices = arange(self.samples.size, dtype=int)", ai.node)) == 1, "")
    ad = m["add_samples"]
    aa = FA(ad)
    srt = find_stmt("samples, log_q = self.sort_samples(samples, log_q)", ad.node)
    idx = find_stmt("$$i = searchsorted(self.samples['logL'], samples['logL'])", ad.node)
    ins_s = find_stmt("self.samples = insert(self.samples, $$i, samples)", ad.node)
    ins_q = find_stmt("self.log_q = insert(self.log_q, $$i, log_q, axis=0)", ad.node)
    okp = len(srt) == 1 and len(idx) == 1 and len(ins_s) == 1 and len(ins_q) == 1 and src(idx[0][1]["i"]) == src(ins_s[0][1]["i"]) == src(ins_q[0][1]["i"])
    ctx.ob("R-PAIR", clause, ad, "batch insertion: the new batch is sorted jointly, positions come from one searchsorted on logL, and samples and density rows are inserted at the same positions (rows along axis 0)", okp, "")
    if okp:
        ids = [aa.cfg.id_of(x[0][0]) for x in (srt, idx, ins_s, ins_q)]
        ctx.ob("R-ORDER", clause, ad, "sort -> searchsorted (against the store before insertion) -> insert samples -> insert rows, each once on every path", all(aa.dominates(ids[i], ids[i + 1]) for i in range(3)) and all(aa.on_every_normal_path(i) and aa.once(i) for i in ids), "")
    return ad, aa, idx, ins_s, ins_q, gs


def run(ctx):
    prog = ctx.prog
    c = prog.cls(OS_)
    m = {k: v for k, v in c.methods.items()}

    ad, aa, idx, ins_s, ins_q, gs = twin_operations(ctx, "C04.1")
    fns = [f for f in prog.all_functions if f.cls is c]

    def ob_pair(f, node, okk, detail):
        ctx.ob("R-PAIR", "C04.1", f, "arrays describing the same rows are filtered and indexed together", okk, detail, node=node)

    pair.scan(prog, fns + [gs], ob_pair)
    ctx.floor("C04.1", 5)

    # ---- C04.2 monotone store ---------------------------------------------------------
    n_internal_derived = [0]
    for f, n, kind in attr_stores(prog, "samples", [c]):
        st = _stmt_of(f.node, n)
        if kind == "assign":
            ok = f.name == "__init__" or match_stmt("self.samples, self.log_q = self.sort_samples(samples, log_q)", st) is not None or match_stmt("self.samples = insert(self.samples, $i, samples)", st) is not None
            ctx.ob("R-WRITERS", "C04.2", f, "the store is only ever (re)assigned from a sort of its input or an insertion of new rows (never shrunk, masked or sliced)", ok, f"`{src(st)[:80]}`", node=n)
        else:
            # the derived fields logQ / logW are recomputed for every stored sample at each level: whole-column stores of
            # those two fields are the one element-level write the store may do itself (what they hold is C03.2's business)
            tg_ = n if isinstance(n, ast.Subscript) else None
            derived_ = tg_ is not None and isinstance(tg_.slice, ast.Constant) and tg_.slice.value in ("logQ", "logW") and src(tg_.value) == "self.samples"
            if derived_:
                n_internal_derived[0] += 1
            ctx.ob("R-WRITERS", "C04.2", f, "no element of the store is overwritten inside OrderedSamples", derived_, f"`{src(st)[:80]}`", node=n)
    for f in fns:
        for n in walk_no_nested(f.node):
            if isinstance(n, ast.Call) and call_name(n) in ("np.delete", "numpy.delete") and n.args:
                a0_ = n.args[0]
                inl_d = single_assignments(f.node)
                for _ in range(3):
                    if isinstance(a0_, ast.Name) and a0_.id in inl_d:
                        a0_ = inl_d[a0_.id]  # a local that names the index attribute
                ctx.ob("R-WRITERS", "C04.2", f, "np.delete is applied to index arrays only, never to the samples or the density table", src(a0_) in ("self.live_points_indices", "self.nested_samples_indices"), f"`{src(n)[:80]}`", node=n)
    # external writers of fields of a store's samples
    ext = 0
    for f in prog.all_functions:
        if f.cls is c:
            continue
        for st in walk_no_nested(f.node):
            if isinstance(st, ast.Assign):
                for t in st.targets:
                    if isinstance(t, ast.Subscript) and isinstance(t.value, ast.Attribute) and t.value.attr == "samples" and src(t.value.value) in ("self.training_samples", "self.iid_samples", "obj.training_samples", "obj.iid_samples"):
                        ext += 1
                        fld = t.slice.value if isinstance(t.slice, ast.Constant) else None
                        ctx.ob("R-WRITERS", "C04.2", f, "code outside the store only rewrites the derived fields logQ / logW of stored samples", fld in ("logQ", "logW") and f.qual == prog.fn(tables.INS + ".add_and_update_points").qual, f"`{src(st)[:80]}`", node=st)
                    if isinstance(t, ast.Attribute) and t.attr in ("samples",) and src(t.value) in ("self.training_samples", "self.iid_samples"):
                        ctx.ob("R-WRITERS", "C04.2", f, "code outside the store never replaces its samples array", False, f"`{src(st)[:80]}`", node=st)
    ctx.require(ext + n_internal_derived[0] >= 2, "logQ/logW stores of the sample stores not found (neither in add_and_update_points nor inside OrderedSamples)")
    ctx.floor("C04.2", 5)  # (the np.delete instance and the place of the derived-field stores are optional: slicing the index array is the same operation)

    # ---- C04.3 co-update of the index sets ------------------------------------------------
    ns_st = [aa.cfg.id_of(n) for n, b in find_stmt("self.nested_samples_indices = $v", ad.node)]
    lp_st = [aa.cfg.id_of(n) for n, b in find_stmt("self.live_points_indices = $v", ad.node)]
    after = aa.cfg.id_of(ins_q[0][0]) if ins_q else None
    okc = after is not None and aa.cfg.every_exit_path_passes(after, ns_st) and aa.cfg.every_exit_path_passes(after, lp_st) and all(aa.cfg.can_follow(after, x) for x in ns_st + lp_st)
    ctx.ob("R-ORDER", "C04.3", ad, "every path that inserts rows re-derives both the discarded and the live index set afterwards", okc, f"{len(ns_st)} + {len(lp_st)} index-set assignments")
    # ---- add_samples, read from its path summaries: what each path leaves in the two index sets ----------------------
    from ..summ import summarise as _summ2, guard_texts as _gt2
    from ..canon import canon_node as _cn
    ad_paths = [pa_ for pa_ in _summ2(ad.node) if pa_.end != "raise"]
    oks = okm = okmerge = ok_none = False
    why_b = ""
    n_strict = n_soft = 0
    for pa_ in ad_paths:
        g_ = dict(_gt2(pa_, canon))
        news_ = pa_.env.get("self.samples")
        b0 = match_expr("insert(self.samples, $idx, $batch)", news_) if news_ is not None else None
        if b0 is None or match_expr("searchsorted(self.samples['logL'], $batch['logL'])", b0["idx"], b0) is None:
            continue
        bb_ = {"idx": _cn(b0["idx"]), "batch": _cn(b0["batch"]), "news": _cn(news_)}
        nest_, live_ = pa_.env.get("self.nested_samples_indices"), pa_.env.get("self.live_points_indices")
        if g_.get("self.strict_threshold") is True:
            n_strict += 1
            oks = nest_ is not None and live_ is not None and match_expr("arange(sum($news['logL'] < self.log_likelihood_threshold))", nest_, bb_) is not None and (match_expr("arange(sum($news['logL'] < self.log_likelihood_threshold), len($news))", live_, bb_) is not None or match_expr("arange(sum($news['logL'] < self.log_likelihood_threshold), $news.size)", live_, bb_) is not None)
        elif g_.get("self.strict_threshold") is False:
            n_soft += 1
            # positions of the new rows after the insertion, and of the rows that were already stored
            newpos_pats = ("$idx + arange(len($idx))", "$idx + arange($idx.size)", "$idx + arange($batch.size)", "$idx + arange(len($batch))")
            old_ = None
            if nest_ is not None:
                bo = match_expr("$old[self.nested_samples_indices]", nest_)
                old_ = bo["old"] if bo else None
            ok_old = False
            if old_ is not None:
                for np_ in newpos_pats:
                    for sz_ in ("$news.size", "len($news)"):
                        if match_expr(f"get_inverse_indices({sz_}, {np_})", old_, bb_) is not None:
                            ok_old = True
                        # the helper written out: the members of arange(size) that are not new positions
                        for ar_ in (f"arange({sz_}, dtype=int)", f"arange({sz_})"):
                            for comp_ in (f"{ar_}[~isin({ar_}, {np_})]", f"{ar_}[isin({ar_}, {np_}, invert=True)]", f"setdiff1d({ar_}, {np_})", f"delete({ar_}, {np_})"):
                                if match_expr(comp_, old_, bb_) is not None:
                                    ok_old = True
                # the equivalent right-sided shift: old rank + number of new rows inserted before it
                for n_txt in ("self.samples.size", "len(self.samples)"):
                    for ar_ in (f"arange({n_txt})", f"arange({n_txt}, dtype=int)"):
                        if match_expr(f"{ar_} + searchsorted($batch['logL'], self.samples['logL'], side='right')", old_, bb_) is not None:
                            ok_old = True
                        elif match_expr(f"{ar_} + searchsorted($batch['logL'], self.samples['logL'])", old_, bb_) is not None:
                            why_b = "old positions are shifted by searchsorted(new, old) with the default left side, but new samples are inserted *before* equal stored samples: with ties the shift must count new samples <= the stored one (side='right')"
            okm_path = ok_old
            bb2 = dict(bb_)
            if old_ is not None:
                bb2["old"] = _cn(old_)
            if g_.get("self.live_points_indices is None") is True:
                ok_none = live_ is not None and any(match_expr(np_, live_, bb_) is not None for np_ in newpos_pats)
                okm_path = okm_path and ok_none
            elif g_.get("self.live_points_indices is None") is False:
                okmerge = live_ is not None and old_ is not None and any(match_expr(f"insert($old[self.live_points_indices], searchsorted($old[self.live_points_indices], {np_}), {np_})", live_, bb2) is not None for np_ in newpos_pats)
                okm_path = okm_path and okmerge
            okm = okm_path if n_soft == 1 else (okm and okm_path)
    ctx.ob("R-LIN", "C04.3", ad, "strict threshold: the two index sets are the complementary prefix / suffix of arange(size), split at the number of samples below the threshold", oks and n_strict == 1, f"{n_strict} strict path(s)")
    ctx.ob("R-LIN", "C04.3", ad, "soft threshold: positions after insertion are searchsorted index + rank; old indices are remapped through the complement of the new positions (or the equivalent right-sided shift)", okm and n_soft == 2, why_b or f"{n_soft} soft path(s)")
    ctx.ob("R-LIN", "C04.3", ad, "new positions are merged into the live index set at searchsorted positions (keeps it increasing), or become the live set when there was none", okmerge and ok_none, "")
    # a path that raises exactly when the remapped index array does not have (new size - batch size) entries
    chk = []
    from ..q import conjuncts as _conj
    for pa_ in _summ2(ad.node):
        if pa_.end == "raise":
            for t0_, tr0_ in pa_.guards:
                for e_, tr_ in _conj(t0_, tr0_):
                    tt_ = _szc(e_)
                    if ("len(get_inverse_indices(" in tt_ or "len(arange(" in tt_) and (("==" in tt_ and tr_ is False) or ("!=" in tt_ and tr_ is True)) and "- len(" in tt_:
                        chk.append(tt_)
    ctx.ob("R-ORDER", "C04.3", ad, "the remapped index array is checked to have exactly (new size - batch size) entries before it is used", len(chk) == 1, f"{len(chk)} raising path(s) guarded by the size test")
    gi = ctx.fn("nessai.utils.structures:get_inverse_indices")
    okg = len(find_stmt("$$v = arange(n, dtype=int)", gi.node)) == 1 and len(find_stmt("return $$v[~isin($$v, indices)]", gi.node)) == 1 and any(isinstance(x, ast.Raise) for x in walk_no_nested(gi.node))
    ctx.ob("R-SIB", "C04.3", gi, "get_inverse_indices returns arange(n) without the given indices (ascending), rejecting out-of-range input", okg, "")
    an = m["add_to_nested_samples"]
    okan = len([1 for n_, b_ in find_stmt("self.nested_samples_indices = $v", an.node) if match_expr("insert(self.nested_samples_indices, searchsorted(self.nested_samples_indices, indices), indices)", b_["v"], inline=single_assignments(an.node)) is not None]) == 1
    ctx.ob("R-LIN", "C04.3", an, "moving indices to the discarded set is a sorted merge (searchsorted + insert)", okan, "")
    def _empty_set(f_, n_):
        st_ = next((s_ for s_ in walk_no_nested(f_.node) if isinstance(s_, ast.Assign) and any(t_ is n_ for t_ in s_.targets)), None)
        v_ = getattr(st_, "value", None)
        return v_ is not None and ((isinstance(v_, ast.Constant) and v_.value is None) or canon(v_) in ("empty(0)", "zeros(0)", "array([])", "arange(0)"))

    # (the initial insertion may (re)create the empty discarded set next to the full live set)
    growers = [f.name for f, n, kind in attr_stores(prog, "nested_samples_indices", [c]) if kind == "assign" and not (f.name == "add_initial_samples" and _empty_set(f, n))]
    ctx.ob("R-WRITERS", "C04.3", OS_, "the discarded index set is assigned only by the constructor, add_samples (remap / strict split) and add_to_nested_samples (merge)", set(growers) <= {"__init__", "add_samples", "add_to_nested_samples"}, f"{sorted(set(growers))}")
    rm = m["remove_samples"]
    ra = FA(rm)
    # read from the path summaries of remove_samples (guards taken, final value of the live index set, the indices
    # handed to add_to_nested_samples, the returned count) - independent of locals, early returns and arm order
    from ..summ import summarise as _summ, guard_texts as _gt
    import re as _re

    L_ = "self.live_points_indices"
    NB_ = cexpr("sum(self.live_points['logL'] < self.log_likelihood_threshold)")
    ok_all = ok_thr = False
    ret_ok = True
    def _feasible(pa_):
        seen_ = {}
        for t_, v_ in _gt(pa_, canon):
            if seen_.setdefault(t_, v_) != v_:
                return False  # the same test taken both ways on one path
        return True

    paths_ = [pa_ for pa_ in _summ(rm.node) if pa_.end != "raise" and _feasible(pa_)]
    # a path that moves nothing and reports 0 is the precondition "no threshold has been set yet" - and only that: the test
    # must be `threshold is None`, a truthiness test also skips the legal threshold 0.0
    idle_ = [pa_ for pa_ in paths_ if not any(e_[0] == "call" and canon(e_[1].func) == "self.add_to_nested_samples" for e_ in pa_.effects) and L_ not in pa_.env]
    for pa_ in idle_:
        g0_ = dict(_gt(pa_, canon))
        ctx.ob("R-DOM", "C04.3", rm, "a removal that moves nothing is taken only when no threshold has been set (`log_likelihood_threshold is None`) and reports 0", g0_.get("self.log_likelihood_threshold is None") is True and pa_.ret is not None and canon(pa_.ret) == "0", f"guards {sorted(g0_.items())}; returns `{src(pa_.ret) if pa_.ret is not None else None}`")
    paths_ = [pa_ for pa_ in paths_ if pa_ not in idle_]
    for pa_ in paths_:
        g_ = dict(_gt(pa_, canon))
        moved_ = [canon(e_[1].args[0]) for e_ in pa_.effects if e_[0] == "call" and canon(e_[1].func) == "self.add_to_nested_samples" and e_[1].args]
        live_ = _szc(pa_.env[L_]) if L_ in pa_.env else None
        ret_ = _szc(pa_.ret) if pa_.ret is not None else None
        if g_.get("self.replace_all") is True:
            ok_all = moved_ == [L_] and live_ == "None"
            ret_ok = ret_ok and ret_ == f"len({L_})"
        elif g_.get("self.replace_all") is False:
            ok_thr = moved_ == [f"{L_}[:{NB_}]"] and live_ == f"{L_}[{NB_}:]"
            ret_ok = ret_ok and ret_ == NB_
    ctx.ob("R-LIN", "C04.3", rm, "removal: the first n live indices (n = live samples strictly below the threshold; all of them in replace-all mode) move to the discarded set and leave the live set", len(paths_) == 2 and ok_all and ok_thr, f"{len(paths_)} paths")
    ctx.ob("R-LIN", "C04.3", rm, "the reported number removed is that n", len(paths_) == 2 and ret_ok, "")
    fi = m["finalise"]
    ctx.ob("R-ORDER", "C04.3", fi, "finalisation moves every remaining live index to the discarded set, then empties the live set", len(find_stmt("self.add_to_nested_samples(self.live_points_indices)", fi.node)) == 1 and len(find_stmt("self.live_points = None", fi.node)) == 1, "")
    lps = c.setters.get("live_points")
    ctx.ob("R-WRITERS", "C04.3", OS_ + ".live_points", "the live set can only be cleared through the property setter (None), never replaced", lps is not None and any(isinstance(x, ast.Raise) for x in walk_no_nested(lps.node)) and len(find_stmt("self.live_points_indices = None", lps.node)) == 1, "")
    views = {"live_points": "self.samples[self.live_points_indices]", "nested_samples": "self.samples[self.nested_samples_indices]"}
    for nm, want in views.items():
        p = m[nm]
        ctx.ob("R-SIB", "C04.3", p, f"{nm} is the view of the store at its index set", any(src(r.value) == want for r in walk_no_nested(p.node) if isinstance(r, ast.Return) and r.value is not None), "")
    ctx.floor("C04.3", 14)

    # ---- C04.4 environment API ----------------------------------------------------------------
    def ob_api(mod, f, node, path, ok, detail):
        ctx.ob("R-API", "C04.4", f.qual if f else mod.name, f"third-party name {path}", ok, detail, node=node, fn=f)

    n_api = api.scan(prog, [prog.module(x) for x in MODS], ob_api)
    ctx.floor("C04.4", 100)

    # ---- C04.5 first-true idiom ------------------------------------------------------------------
    fx = argmax_sites(ast.parse(ARGMAX_FIXTURE))
    ctx.require(len(fx) == 1, "R-ARGMAX fixture no longer matches: the rule would pass vacuously")
    n_sites = 0
    for f in fns:
        for n in argmax_sites(f.node):
            n_sites += 1
            ctx.ob("R-ARGMAX", "C04.5", f, "np.argmax(<predicate>) is not used as a split index in the sample store (it is 0, not 'all', when nothing satisfies the predicate)", False, f"`{src(n)[:90]}`: the predicate can be all-False when the threshold comes from the other store", node=n)
    ctx.ob("R-ARGMAX", "C04.5", OS_, "first-true search in the sample store is free of the all-False trap", True, f"{n_sites} argmax(<predicate>) sites in OrderedSamples (fixture matched {len(fx)})")
    # ---- C04.6 the threshold the store acts on is the threshold it was given ----------------------------------------
    # remove_samples / strict add_samples count against self.log_likelihood_threshold; "the number removed equals the
    # number of live samples strictly below the threshold" is a statement about the caller's threshold, so the setter
    # must store its argument unchanged on every path (a soft threshold may legitimately move down), and the sampler
    # must hand the same value to both stores
    for cq_ in (tables.OS_, tables.INS):
        up_ = ctx.fn(cq_ + ".update_log_likelihood_threshold")
        ua_ = FA(up_)
        par_ = up_.params()[1]
        sts_ = ua_.find(lambda s_: isinstance(s_, ast.Assign) and any(src(t_) == "self.log_likelihood_threshold" for t_ in s_.targets))
        rebound_ = [s_ for s_ in walk_no_nested(up_.node) if isinstance(s_, (ast.Assign, ast.AugAssign)) and any(isinstance(x_, ast.Name) and x_.id == par_ and isinstance(x_.ctx, ast.Store) for x_ in ast.walk(s_))]
        ok_ = len(sts_) == 1 and isinstance(ua_.stmt(sts_[0]).value, ast.Name) and ua_.stmt(sts_[0]).value.id == par_ and not rebound_ and ua_.on_every_normal_path(sts_[0]) and not ua_.guards(sts_[0])
        ctx.ob("R-WRITERS", "C04.6", up_, "update_log_likelihood_threshold stores exactly the threshold it was given, unconditionally", ok_, f"stores: {[src(ua_.stmt(s_))[:60] for s_ in sts_]}" + (f"; `{par_}` is re-bound: `{src(rebound_[0])[:50]}`" if rebound_ else ""))
    ins_up_ = ctx.fn(tables.INS + ".update_log_likelihood_threshold")
    fwd_ = [c_ for c_ in walk_no_nested(ins_up_.node) if isinstance(c_, ast.Call) and isinstance(c_.func, ast.Attribute) and c_.func.attr == "update_log_likelihood_threshold"]
    ctx.ob("R-WRITERS", "C04.6", ins_up_, "the sampler forwards the same threshold to the training store and to the independent store", len(fwd_) == 2 and {src(c_.func.value) for c_ in fwd_} == {"self.training_samples", "self.iid_samples"} and all(len(c_.args) == 1 and src(c_.args[0]) in ("self.log_likelihood_threshold", ins_up_.params()[1]) for c_ in fwd_), f"{[src(c_)[:70] for c_ in fwd_]}")
    for f_, n_, kind_ in attr_stores(prog, "log_likelihood_threshold", [prog.cls(tables.OS_)]):
        ctx.ob("R-WRITERS", "C04.6", f_, "the store's threshold is written only by its constructor (None) and its setter", f_.name in ("__init__", "update_log_likelihood_threshold"), f"`{src(n_)[:60]}`", node=n_)
    ctx.floor("C04.6", 5)

    # ---- C04.7 an index set is never the None index ------------------------------------------------------------------
    # `a[None]` is `a[np.newaxis]`: remapping an index set that is still None does not fail, it yields a 2-d array that
    # holds every old index - every stored sample becomes both live and discarded
    from ..rules import nonnull as _nn

    for f_, s_, ok_, why_ in _nn.index_uses(prog, initialisers={OS_.qual if hasattr(OS_, 'qual') else str(OS_): ("add_initial_samples",)}):
        ctx.ob("R-NONNULL", "C04.7", f_, "an attribute used as an array index cannot be None at that use (never None in its class, or excluded by the guards of the use)", ok_, why_, node=s_)
    ctx.floor("C04.7", 8)
    ctx.assumptions += ["numpy insert / searchsorted / argsort semantics", "the history-level statement (arbitrary interleavings with ties) is a question about array contents and is not decided; only the discipline every interleaving relies on is"]


def _stmt_of(fnode, node):
    best = None
    for s in ast.walk(fnode):
        if isinstance(s, ast.stmt) and any(x is node for x in ast.walk(s)):
            if best is None or s.lineno >= best.lineno:
                best = s
    return best



class _SizeToLen(ast.NodeTransformer):
    def visit_Attribute(self, n):
        self.generic_visit(n)
        if n.attr == "size" and isinstance(n.ctx, ast.Load):
            return ast.Call(func=ast.Name(id="len", ctx=ast.Load()), args=[n.value], keywords=[])
        return n


def _szc(e):
    """canonical text of an expression with `X.size` written as `len(X)` (the store's arrays are one-dimensional)"""
    import copy as _copy

    return canon(_SizeToLen().visit(_copy.deepcopy(e))) if e is not None else None


CLAIM = {
    "text": "Decides the discipline that every operation sequence on the INS sample store relies on: samples and their density rows are sorted by one argsort, inserted at the same searchsorted positions (axis 0) and never masked apart (R-PAIR); the store is only (re)assigned from a sort of its input or an insertion, np.delete touches index arrays only, and outside code only rewrites the derived logQ/logW fields; every inserting path re-derives both index sets: strict mode as complementary prefix/suffix of arange(size) split at the number of samples below the threshold, soft mode by remapping old indices through the complement of (searchsorted index + rank) - the same positions used for the insertion, with a size check - and merging the new positions at searchsorted positions; moving to the discarded set is a sorted merge; removal takes the first n live indices with n = live samples strictly below the threshold (all in replace-all mode) and returns that n; finalisation moves all remaining live indices. Every numpy/scipy name used by the store exists in the pinned environment (np.in1d did not: repaired), and no np.argmax(<predicate>) first-true idiom remains in the store (two were found and repaired). Both threshold setters store exactly the threshold they were given, unconditionally, the sampler forwards one value to both stores and the store's threshold has no other writer (the removed count is a statement about the caller's threshold). An attribute used as an array index (`a[self.idx]`) can never be None at that use - numpy would add an axis instead of failing (C04.7: never None in the class family, or None only before the documented first operation add_initial_samples, or excluded by the guards of the use). A removal that moves nothing is taken only when no threshold has been set (`is None`, never truthiness: 0.0 is a threshold) and reports 0 (C04.3).",
    "note": "The history-level statement (sortedness / partition under arbitrary interleavings with ties) is a model-checking question over array contents and is not decided here; these are the necessary structural conditions.",
}

_I = "nessai/samplers/importancesampler.py"
_S = "nessai/utils/structures.py"
MUTANTS = [
    {"id": "discarded-set-starts-as-none", "file": "nessai/samplers/importancesampler.py", "old": "        self.nested_samples_indices = np.empty(0, dtype=int)\n        self.strict_threshold", "new": "        self.nested_samples_indices = None\n        self.strict_threshold", "expect": "used as an array index cannot be None"},
    {"id": "rows-inserted-elsewhere", "file": _I, "old": "        self.log_q = np.insert(self.log_q, indices, log_q, axis=0)", "new": "        self.log_q = np.insert(self.log_q, indices + 1, log_q, axis=0)", "expect": "batch insertion"},
    {"id": "rows-inserted-flat", "file": _I, "old": "        self.log_q = np.insert(self.log_q, indices, log_q, axis=0)", "new": "        self.log_q = np.insert(self.log_q, indices, log_q)", "expect": "batch insertion"},
    {"id": "batch-not-sorted", "file": _I, "old": "        samples, log_q = self.sort_samples(samples, log_q)\n        indices = np.searchsorted", "new": "        indices = np.searchsorted", "expect": "batch insertion"},
    {"id": "sort-samples-only", "file": _I, "old": "            return get_subset_arrays(idx, samples, *args)", "new": "            return (samples[idx],) + args", "expect": "sorting applies one argsort"},
    {"id": "store-truncated", "file": _I, "old": "        self.add_to_nested_samples(self.live_points_indices)\n        self.live_points = None\n        self.state.update_evidence(self.samples)", "new": "        self.add_to_nested_samples(self.live_points_indices)\n        self.live_points = None\n        self.samples = self.samples[self.nested_samples_indices]\n        self.state.update_evidence(self.samples)", "expect": "only ever (re)assigned"},
    {"id": "delete-on-samples", "file": _I, "old": "            self.live_points_indices = np.delete(\n                self.live_points_indices, np.s_[:n]\n            )", "new": "            self.live_points_indices = np.delete(\n                self.live_points_indices, np.s_[:n]\n            )\n            self.log_q = np.delete(self.log_q, np.s_[:0], axis=0)", "expect": "np.delete is applied to index arrays only"},
    {"id": "external-field-write", "file": _I, "old": "        self.history[\"n_added\"].append(new_samples.size)\n", "new": "        self.history[\"n_added\"].append(new_samples.size)\n        self.training_samples.samples[\"logL\"] = np.sort(self.training_samples.samples[\"logL\"])\n", "expect": "only rewrites the derived fields"},
    {"id": "live-set-not-remapped", "file": _I, "old": "                self.live_points_indices = old_indices[\n                    self.live_points_indices\n                ]\n", "new": "", "expect": "soft threshold"},
    {"id": "remap-with-other-positions", "file": _I, "old": "            new_indices = indices + np.arange(len(indices))", "new": "            new_indices = indices + np.arange(1, len(indices) + 1)", "expect": "soft threshold"},
    {"id": "strict-split-overlaps", "file": _I, "old": "            self.live_points_indices = indices[n:]\n", "new": "            self.live_points_indices = indices[n - 1 :]\n", "expect": "strict threshold"},
    {"id": "nested-merge-appends", "file": _I, "old": "        self.nested_samples_indices = np.insert(\n            self.nested_samples_indices,\n            sort_indices,\n            indices,\n        )", "new": "        self.nested_samples_indices = np.concatenate(\n            [self.nested_samples_indices, indices]\n        )", "expect": "sorted merge"},
    {"id": "remove-keeps-live", "file": _I, "old": "            self.live_points_indices = np.delete(\n                self.live_points_indices, np.s_[:n]\n            )", "new": "            pass", "expect": "removal: the first n live indices"},
    {"id": "remove-reports-other-count", "file": _I, "old": "            )\n        return n\n\n    def update_evidence(self) -> None:", "new": "            )\n        return len(self.nested_samples_indices)\n\n    def update_evidence(self) -> None:", "expect": "reported number removed"},
    {"id": "argmax-back", "file": _I, "old": "            n = np.sum(\n                self.live_points[\"logL\"] < self.log_likelihood_threshold\n            )", "new": "            n = np.argmax(\n                self.live_points[\"logL\"] >= self.log_likelihood_threshold\n            )", "expect": "np.argmax(<predicate>) is not used"},
    {"id": "in1d-back", "file": _S, "old": "    return inv[~np.isin(inv, indices)]", "new": "    return inv[~np.in1d(inv, indices)]", "expect": "numpy.in1d"},
    {"id": "inverse-indices-unsorted", "file": _S, "old": "    inv = np.arange(n, dtype=int)\n    return inv[~np.isin(inv, indices)]", "new": "    inv = np.arange(n, dtype=int)[::-1]\n    return inv[~np.isin(inv, indices)]", "expect": "get_inverse_indices returns"},
]
