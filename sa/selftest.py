"""Mutation self-test of the checkers.

Every mutant is a one-construct edit of the current /repo source (computed on
the current tree, held in memory as a scratch variant: nothing is written under
/repo or /verif) that still parses and keeps the mocked unit tests green.  The
checker of the property must report a violation *naming the expected instance*;
the untouched twin must be silent.  Expected violations are captured here and
never printed as VIOLATION lines.
"""

from __future__ import annotations

import ast
import os
import sys
import time
from concurrent.futures import ProcessPoolExecutor
from typing import Dict, List

from . import AnalysisError
from . import core
from .pm import Program


def _load_mutants(prop_id: str) -> List[dict]:
    mod = core.prop_module(prop_id)
    return list(getattr(mod, "MUTANTS", []))


def apply_mutant(repo: str, m: dict) -> Dict[str, str]:
    """Returns overrides {relpath: new source}; raises KeyError if the anchor text is gone."""
    edits = m.get("edits") or [(m["file"], m["old"], m["new"])]
    out: Dict[str, str] = {}
    for rel, old, new in edits:
        s = out.get(rel)
        if s is None:
            with open(os.path.join(repo, rel)) as fh:
                s = fh.read()
        n = s.count(old)
        if n != m.get("count", 1):
            raise KeyError(f"mutant {m['id']}: anchor text occurs {n}x in {rel}")
        s = s.replace(old, new)
        ast.parse(s)
        out[rel] = s
    return out


def _run_one(args):
    prop_id, repo, m = args
    sys.setrecursionlimit(10000)
    try:
        ov = apply_mutant(repo, m)
    except KeyError as e:
        return (m["id"], "skipped", str(e))
    except SyntaxError as e:
        return (m["id"], "failed", f"mutant does not parse: {e}")
    try:
        prog = core.make_program(prop_id, repo, overrides=ov)
        ctx = core.analyse(prop_id, repo, "quick", prog=prog)
    except AnalysisError as e:
        if m.get("expect") == "ANALYSIS":
            return (m["id"], "caught", f"analysis refuses: {e}")
        return (m["id"], "failed", f"analysis error instead of violation: {e}")
    except Exception as e:  # pragma: no cover
        return (m["id"], "failed", f"internal error {e!r}")
    known = {f["key"] for f in core.load_known().get("findings", []) if f["property"] == prop_id}
    bad = [o for o in ctx.obs if not o.ok and o.key not in known]
    exp = m.get("expect", "")
    hits = [o for o in bad if exp in o.construct or exp in o.clause or exp in o.where]
    if hits:
        return (m["id"], "caught", f"{hits[0].clause} {hits[0].where.split(':')[-1]}: {hits[0].construct[:100]}")
    if bad:
        return (m["id"], "failed", f"violation reported but not the expected instance {exp!r}: {bad[0].construct[:100]}")
    return (m["id"], "failed", "mutant not detected")


def run_for_property(prop_id: str, repo: str, jobs: int = 16) -> dict:
    muts = _load_mutants(prop_id)
    t0 = time.time()
    results = []
    if muts:
        with ProcessPoolExecutor(max_workers=min(jobs, len(muts))) as ex:
            results = list(ex.map(_run_one, [(prop_id, repo, m) for m in muts]))
    caught = [r for r in results if r[1] == "caught"]
    failed = [f"{r[0]}: {r[2]}" for r in results if r[1] == "failed"]
    skipped = [f"{r[0]}: {r[2]}" for r in results if r[1] == "skipped"]
    return {
        "mutants": len(muts),
        "caught": len(caught),
        "failed": failed,
        "skipped_anchor_text_changed": skipped,
        "details": [{"mutant": r[0], "outcome": r[1], "by": r[2]} for r in results],
        "wall_s": round(time.time() - t0, 2),
    }


def main(repo: str, prop: str = None) -> int:
    from .props import ALL

    rc = 0
    for p in [prop] if prop else ALL:
        try:
            r = run_for_property(p, repo)
        except Exception as e:
            print(f"selftest {p}: error {e!r}")
            rc = 2
            continue
        print(f"selftest {p}: {r['caught']}/{r['mutants']} mutants caught, {len(r['skipped_anchor_text_changed'])} skipped, {r['wall_s']}s")
        for f in r["failed"]:
            print("   FAILED", f)
            rc = 2
        for f in r["skipped_anchor_text_changed"]:
            print("   skipped", f)
    return rc
